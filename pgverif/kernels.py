"""Uninterpreted summaries of the spline evaluators and physics helpers used by the
formula checks (C10-C16).  The spline evaluators have the semantics stated by C07:
S1(x, der; knots, degree, coeffs), S2(x, y, der1, der2; kts1, deg1, kts2, deg2, coeffs)."""
from __future__ import annotations

import ast

import sympy as sp
from sympy import Function, Symbol

from .symx import Arr, Undecided, SymExec
from .core import src

S1 = Function("S1")
S2 = Function("S2")
FEQ = Function("f_eq")


def sym_of(v):
    """symbol standing for a whole array / scalar argument"""
    if isinstance(v, Arr):
        return Symbol("arr_" + v.name)
    return v


def argvals(ex: SymExec, call: ast.Call, names):
    """bind positional/keyword actuals to the given formal names"""
    out = {}
    for i, a in enumerate(call.args):
        if i < len(names):
            out[names[i]] = ex.ev(a)
    for k in call.keywords:
        out[k.arg] = ex.ev(k.value)
    return out


CROSS_FORMALS = ["X", "Y", "kts1", "deg1", "kts2", "deg2", "coeffs", "z", "der1", "der2"]
SCALAR2_FORMALS = ["x", "y", "kts1", "deg1", "kts2", "deg2", "coeffs", "der1", "der2"]
SCALAR1_FORMALS = ["x", "knots", "degree", "coeffs", "der"]
VECTOR1_FORMALS = ["x", "knots", "degree", "coeffs", "y", "der"]
FEQ_FORMALS = ["r", "vPar", "CN0", "kN0", "deltaRN0", "rp", "Cti", "kti", "deltaRti"]


def h_cross(ex: SymExec, call: ast.Call):
    a = argvals(ex, call, CROSS_FORMALS)
    a.setdefault("der1", sp.Integer(0))
    a.setdefault("der2", sp.Integer(0))
    z = a["z"]
    X, Y = a["X"], a["Y"]
    if not (isinstance(z, Arr) and isinstance(X, Arr) and isinstance(Y, Arr)):
        raise Undecided("eval_spline_2d_cross arguments")
    fam = tuple(sym_of(a[k]) for k in ("kts1", "deg1", "kts2", "deg2", "coeffs"))
    d1, d2 = a["der1"], a["der2"]

    def gen(ix, X=X, Y=Y, d1=d1, d2=d2, fam=fam):
        return S2(X.read([ix[0]]), Y.read([ix[1]]), d1, d2, *fam)
    z.cells = {}
    z.generic = gen
    return sp.S.NaN


def h_scalar2(ex: SymExec, call: ast.Call):
    a = argvals(ex, call, SCALAR2_FORMALS)
    a.setdefault("der1", sp.Integer(0))
    a.setdefault("der2", sp.Integer(0))
    fam = tuple(sym_of(a[k]) for k in ("kts1", "deg1", "kts2", "deg2", "coeffs"))
    return S2(a["x"], a["y"], a["der1"], a["der2"], *fam)


def h_scalar1(ex: SymExec, call: ast.Call):
    a = argvals(ex, call, SCALAR1_FORMALS)
    a.setdefault("der", sp.Integer(0))
    fam = tuple(sym_of(a[k]) for k in ("knots", "degree", "coeffs"))
    return S1(a["x"], a["der"], *fam)


def h_vector1(ex: SymExec, call: ast.Call):
    a = argvals(ex, call, VECTOR1_FORMALS)
    a.setdefault("der", sp.Integer(0))
    y, x = a["y"], a["x"]
    if not (isinstance(y, Arr) and isinstance(x, Arr)):
        raise Undecided("eval_spline_1d_vector arguments")
    fam = tuple(sym_of(a[k]) for k in ("knots", "degree", "coeffs"))
    d = a["der"]

    def gen(ix, x=x, d=d, fam=fam):
        return S1(x.read([ix[0]]), d, *fam)
    y.cells = {}
    y.generic = gen
    return sp.S.NaN


def h_feq(ex: SymExec, call: ast.Call):
    a = argvals(ex, call, FEQ_FORMALS)
    missing = [k for k in FEQ_FORMALS if k not in a]
    if missing:
        raise Undecided(f"f_eq call without {missing}")
    return FEQ(*[a[k] for k in FEQ_FORMALS])


SPLINE_HANDLERS = {
    "eval_spline_2d_cross": h_cross, "eval_spline_2d_scalar": h_scalar2,
    "eval_spline_1d_scalar": h_scalar1, "eval_spline_1d_vector": h_vector1,
    "cu_eval_spline_2d_cross": h_cross, "nu_eval_spline_2d_cross": h_cross,
    "cu_eval_spline_2d_scalar": h_scalar2, "nu_eval_spline_2d_scalar": h_scalar2,
    "cu_eval_spline_1d_scalar": h_scalar1, "nu_eval_spline_1d_scalar": h_scalar1,
    "cu_eval_spline_1d_vector": h_vector1, "nu_eval_spline_1d_vector": h_vector1,
    "f_eq": h_feq,
}
