import sys, os; sys.path.insert(0, os.getcwd())
import threading
import types
import warnings
import itertools
import numpy as np

# ---------------------------------------------------------------------------
# A small in-process fake of mpi4py: every rank is a thread, collectives are
# implemented with barriers and shared slots.
# ---------------------------------------------------------------------------
_TIMEOUT = 60


class _Group:
    def __init__(self, size):
        self.size = size
        self.barrier = threading.Barrier(size)
        self.slots = [None]*size
        self.children = {}
        self.lock = threading.Lock()


class FakeComm:
    def __init__(self, group, rank, dims=None):
        self._g = group
        self._rank = rank
        self._dims = dims
        self._nsub = 0

    def Get_size(self):
        return self._g.size

    def Get_rank(self):
        return self._rank

    def Barrier(self):
        self._g.barrier.wait(_TIMEOUT)

    def _child(self, key, size):
        with self._g.lock:
            if key not in self._g.children:
                self._g.children[key] = _Group(size)
            return self._g.children[key]

    def Create_cart(self, dims, periods=None, reorder=False):
        dims = [int(d) for d in dims]
        assert int(np.prod(dims)) == self._g.size
        self._nsub += 1
        g = self._child(('cart', self._nsub), self._g.size)
        return FakeComm(g, self._rank, dims)

    def Get_coords(self, rank):
        return [int(c) for c in np.unravel_index(rank, self._dims)]

    def Sub(self, remain):
        coords = self.Get_coords(self._rank)
        self._nsub += 1
        fixed = tuple(c for c, r in zip(coords, remain) if not r)
        subdims = [d for d, r in zip(self._dims, remain) if r]
        subcoords = [c for c, r in zip(coords, remain) if r]
        size = int(np.prod(subdims)) if subdims else 1
        rank = int(np.ravel_multi_index(subcoords, subdims)) if subdims else 0
        g = self._child(('sub', self._nsub, fixed), size)
        return FakeComm(g, rank, subdims)

    @staticmethod
    def _arr(spec):
        return spec[0] if isinstance(spec, (tuple, list)) else spec

    def Allgather(self, send, recv):
        s = self._arr(send)
        r = self._arr(recv)
        g = self._g
        g.slots[self._rank] = np.array(s, copy=True).ravel()
        g.barrier.wait(_TIMEOUT)
        flat = np.concatenate(g.slots)
        assert r.size == flat.size, "Allgather: receive buffer size mismatch"
        r.reshape(-1)[:] = flat
        g.barrier.wait(_TIMEOUT)

    def Alltoall(self, send, recv):
        s = self._arr(send)
        r = self._arr(recv)
        g = self._g
        n = g.size
        assert s.size % n == 0 and r.size == s.size
        chunk = s.size//n
        g.slots[self._rank] = np.array(s, copy=True).ravel()
        g.barrier.wait(_TIMEOUT)
        rf = r.reshape(-1)
        for j in range(n):
            rf[j*chunk:(j+1)*chunk] = g.slots[j][self._rank*chunk:(self._rank+1)*chunk]
        g.barrier.wait(_TIMEOUT)


_mpi4py = types.ModuleType('mpi4py')
_MPI = types.ModuleType('mpi4py.MPI')
_MPI.Comm = FakeComm
_MPI.DOUBLE = 'DOUBLE'
_MPI.COMM_WORLD = FakeComm(_Group(1), 0)
_mpi4py.MPI = _MPI
sys.modules['mpi4py'] = _mpi4py
sys.modules['mpi4py.MPI'] = _MPI

import pygyro
assert os.path.abspath(pygyro.__file__).startswith(os.path.abspath(os.getcwd()) + os.sep), pygyro.__file__
from pygyro.model import layout as layout_mod
from pygyro.model.layout import LayoutSwapper


def run_ranks(nranks, fn):
    """ Run fn(comm) on nranks threads; return the list of results.
        An exception on any rank is re-raised. """
    world = _Group(nranks)
    res = [None]*nranks
    err = [None]*nranks

    def target(r):
        try:
            with warnings.catch_warnings():
                warnings.simplefilter('ignore')
                res[r] = fn(FakeComm(world, r))
        except BaseException as e:  # noqa
            err[r] = e
            world.barrier.abort()
            stack = [world]
            while stack:
                g = stack.pop()
                g.barrier.abort()
                stack.extend(g.children.values())

    ths = [threading.Thread(target=target, args=(r,)) for r in range(nranks)]
    for t in ths:
        t.start()
    for t in ths:
        t.join()
    real = [e for e in err if e is not None and not isinstance(e, threading.BrokenBarrierError)]
    if real:
        raise real[0]
    for e in err:
        if e is not None:
            raise e
    return res


def global_field(shape):
    return np.arange(int(np.prod(shape)), dtype=float).reshape(shape) + 0.5


def expected_block(G, layout):
    """ Independent reference: slice of the known global array """
    T = np.transpose(G, layout.dims_order)
    sl = tuple(slice(int(s), int(e)) for s, e in zip(layout.starts, layout.ends))
    return T[sl]


def view(buf, layout):
    return buf[:layout.size].reshape(layout.shape)


def walk(comm, shape, groups, nprocs, start, seq, with_buf, swapper_cls=LayoutSwapper):
    """ On one rank: create the swapper, fill the start layout from the global
        array and walk the sequence. Returns a list of problems and a trace of
        the data after every step. """
    eta_grids = [np.linspace(0, 1, n) for n in shape]
    sw = swapper_cls(comm, groups, nprocs, eta_grids, start)
    return walk_swapper(sw, shape, start, seq, with_buf)


def walk_swapper(sw, shape, start, seq, with_buf):
    G = global_field(shape)
    problems = []
    trace = []
    A = np.full(sw.bufferSize, np.nan)
    B = np.full(sw.bufferSize, np.nan)
    C = np.full(sw.bufferSize, np.nan)
    cur = start
    view(A, sw.getLayout(cur))[:] = expected_block(G, sw.getLayout(cur))
    for k, (nxt, use_buf) in enumerate(zip(seq, with_buf)):
        lc = sw.getLayout(cur)
        ln = sw.getLayout(nxt)
        if use_buf:
            sw.transpose(A, B, cur, nxt, buf=C)
            if not np.array_equal(view(A, lc), expected_block(G, lc)):
                problems.append("step %d %s->%s: source not left intact" % (k, cur, nxt))
        else:
            sw.transpose(A, B, cur, nxt)
        got = view(B, ln).copy()
        trace.append((nxt, tuple(int(s) for s in ln.starts), got))
        if not np.array_equal(got, expected_block(G, ln)):
            problems.append("step %d %s->%s (buf=%s): wrong data" % (k, cur, nxt, use_buf))
            # restart from correct data so that later steps are judged on their own
            view(B, ln)[:] = expected_block(G, ln)
        if sw.nProcs != sw._managers[sw._handlers[nxt]].nProcs:
            problems.append("step %d: current manager not updated" % k)
        A, B = B, A
        cur = nxt
    return problems, trace


def check_coverage_and_replicas(shape, results, names):
    """ results: per rank (problems, trace). For every step check that the
        union of blocks covers the global array evenly and replicas agree """
    problems = []
    nsteps = len(results[0][1])
    G = global_field(shape)
    for k in range(nsteps):
        byStart = {}
        for r, (_, tr) in enumerate(results):
            name, st, data = tr[k]
            byStart.setdefault(st, []).append(data)
        total = 0
        for st, lst in byStart.items():
            for d in lst[1:]:
                if not np.array_equal(d, lst[0]):
                    problems.append("step %d: replicas differ" % k)
            total += lst[0].size
        counts = set(len(l) for l in byStart.values())
        if total != G.size or len(counts) != 1:
            problems.append("step %d: blocks do not tile the global array (%d vs %d)" % (k, total, G.size))
    return problems


# ----- standard configurations ------------------------------------------------
G3_POISSON = {'v_parallel_2d': [0, 2, 1], 'mode_solve': [1, 2, 0]}
G3_POLOIDAL = {'poloidal': [2, 1, 0], 'poloidalTwist': [2, 0, 1]}
G3_VPAR = {'v_parallel_1d': [0, 2, 1]}
NAMES3 = ['v_parallel_2d', 'mode_solve', 'poloidal', 'poloidalTwist', 'v_parallel_1d']

G4_A = {'flux_surface2': [0, 3, 1, 2], 'v_parallel': [0, 2, 1, 3], 'poloidal': [3, 2, 1, 0]}
G4_B = {'flux_surface1': [0, 3, 1, 2], 'z_surface': [2, 3, 1, 0], 'vr_contig1': [2, 1, 3, 0]}
NAMES4 = list(G4_A) + list(G4_B)


def all_pairs_sequence(names, rng):
    """ A sequence visiting every ordered pair of layouts at least once """
    pairs = [(a, b) for a in names for b in names if a != b]
    rng.shuffle(pairs)
    seq = []
    cur = names[0]
    start = cur
    for a, b in pairs:
        if cur != a:
            seq.append(a)
        seq.append(b)
        cur = b
    return start, seq


def standard_cases():
    rng = np.random.default_rng(1234)
    cases = []
    for shape, grid in [((5, 6, 7), (2, 3)), ((7, 5, 6), (3, 2)), ((4, 6, 4), (2, 2)),
                        ((5, 7, 3), (3, 3)), ((6, 5, 4), (1, 2)), ((6, 5, 4), (2, 1)),
                        ((8, 8, 8), (2, 4)), ((3, 4, 5), (1, 1))]:
        start, seq = all_pairs_sequence(NAMES3, rng)
        wb = [bool(b) for b in rng.integers(0, 2, len(seq))]
        cases.append(dict(shape=shape, grid=grid, groups=[G3_POISSON, G3_POLOIDAL, G3_VPAR],
                          nprocs=[list(grid), grid[1], grid[0]], start=start, seq=seq, with_buf=wb))
        # same pairs with the opposite buffer choice
        cases.append(dict(shape=shape, grid=grid, groups=[G3_POISSON, G3_POLOIDAL, G3_VPAR],
                          nprocs=[list(grid), grid[1], grid[0]], start=start, seq=seq,
                          with_buf=[not b for b in wb]))
    for shape, grid in [((5, 4, 3, 6), (2, 3)), ((6, 3, 4, 5), (2, 2)), ((4, 3, 3, 5), (3, 1))]:
        start, seq = all_pairs_sequence(NAMES4, rng)
        wb = [bool(b) for b in rng.integers(0, 2, len(seq))]
        cases.append(dict(shape=shape, grid=grid, groups=[G4_A, G4_B],
                          nprocs=[list(grid), grid[0]], start=start, seq=seq, with_buf=wb))
    return cases


def run_case(case, swapper_cls=LayoutSwapper):
    n = int(np.prod(case['grid']))
    res = run_ranks(n, lambda comm: walk(comm, case['shape'], case['groups'], case['nprocs'],
                                         case['start'], case['seq'], case['with_buf'], swapper_cls))
    problems = []
    for r, (p, _) in enumerate(res):
        problems += ["rank %d: %s" % (r, x) for x in p]
    problems += check_coverage_and_replicas(case['shape'], res, None)
    return problems, res


def run_standard(verbose=True, digest=None):
    bad = 0
    for case in standard_cases():
        try:
            problems, res = run_case(case)
            if digest is not None:
                for r, (_, tr) in enumerate(res):
                    for name, st, data in tr:
                        digest.update(repr((r, name, st, data.shape)).encode())
                        digest.update(np.ascontiguousarray(data).tobytes())
        except Exception as e:  # constructor refused or crashed
            problems = ["exception %s: %s" % (type(e).__name__, e)]
        if problems:
            bad += 1
            if verbose:
                print("FAIL shape=%s grid=%s: %d problems, first: %s" %
                      (case['shape'], case['grid'], len(problems), problems[0]))
        elif verbose:
            print("ok   shape=%s grid=%s steps=%d" % (case['shape'], case['grid'], len(case['seq'])))
    return bad



if __name__ == '__main__':
    # Two swappers living in the same process (as in a simulation which has one
    # swapper per field). They use the same layout names, but in the second the
    # 1-D group stores its data in another dimension order.
    rng = np.random.default_rng(7)
    bad = 0
    for shape, grid in [((5, 6, 7), (2, 3)), ((4, 6, 4), (2, 2)), ((7, 5, 6), (3, 1))]:
        start, seq = all_pairs_sequence(NAMES3, rng)
        wb = [bool(b) for b in rng.integers(0, 2, len(seq))]
        first = dict(shape=shape, grid=grid, groups=[G3_POISSON, G3_POLOIDAL, G3_VPAR],
                     nprocs=[list(grid), grid[1], grid[0]], start=start, seq=seq, with_buf=wb)
        second = dict(first, groups=[G3_POISSON, G3_POLOIDAL, {'v_parallel_1d': [0, 1, 2]}])
        for label, case in (("first swapper ", first), ("second swapper", second)):
            try:
                problems, _ = run_case(case)
            except Exception as e:
                problems = ["exception %s: %s" % (type(e).__name__, e)]
            if problems:
                bad += 1
                print("FAIL %s shape=%s grid=%s: %d problems, first: %s" %
                      (label, shape, grid, len(problems), problems[0]))
            else:
                print("ok   %s shape=%s grid=%s steps=%d" % (label, shape, grid, len(seq)))
    print("property holds" if bad == 0 else "PROPERTY VIOLATED in %d cases" % bad)
    sys.exit(1 if bad else 0)
