import threading, numpy as np
class _World:
    def __init__(self,n):
        self.n=n; self.bar=threading.Barrier(n); self.box={}; self.lock=threading.Lock()
class Comm:
    def __init__(self,world,ranks,me):
        self.w=world; self.ranks=list(ranks); self.me=me  # me = world rank
        self.key=tuple(self.ranks)
    def Get_rank(self): return self.ranks.index(self.me)
    def Get_size(self): return len(self.ranks)
    def _exchange(self,tag,val):
        w=self.w
        with w.lock: w.box[(self.key,tag,self.me)]=val
        w.bar.wait()
        res=[w.box[(self.key,tag,r)] for r in self.ranks]
        w.bar.wait()
        return res
    def Create_cart(self,dims,periods=None):
        c=Cart(self.w,self.ranks,self.me,list(dims)); return c
    def Alltoall(self,s,r):
        s=s[0] if isinstance(s,tuple) else s; r=r[0] if isinstance(r,tuple) else r
        allv=self._exchange('a2a',np.array(s).copy())
        n=len(self.ranks); me=self.Get_rank(); blk=s.size//n
        for k,v in enumerate(allv): r.reshape(-1)[k*blk:(k+1)*blk]=v.reshape(-1)[me*blk:(me+1)*blk]
    def Allgather(self,s,r):
        s=s[0] if isinstance(s,tuple) else s; r=r[0] if isinstance(r,tuple) else r
        allv=self._exchange('ag',np.array(s).copy()); blk=s.size
        for k,v in enumerate(allv): r.reshape(-1)[k*blk:(k+1)*blk]=v.reshape(-1)
class Cart(Comm):
    def __init__(self,w,ranks,me,dims):
        super().__init__(w,ranks,me); self.dims=dims
    def Get_coords(self,rank):
        return list(np.unravel_index(rank,self.dims))
    def Sub(self,keep):
        myc=self.Get_coords(self.Get_rank())
        members=[]
        for r in range(len(self.ranks)):
            c=self.Get_coords(r)
            if all(keep[k] or c[k]==myc[k] for k in range(len(self.dims))): members.append(self.ranks[r])
        self.w.bar.wait()
        return Comm(self.w,members,self.me)
class _M:
    Comm=Comm; DOUBLE=None; COMM_WORLD=None
MPI=_M()
def run(n,fn):
    w=_World(n); out=[None]*n; err=[None]*n
    def t(r):
        try: out[r]=fn(Comm(w,range(n),r))
        except BaseException as e:
            import traceback; err[r]=traceback.format_exc(); w.bar.abort()
    ths=[threading.Thread(target=t,args=(r,)) for r in range(n)]
    [x.start() for x in ths]; [x.join() for x in ths]
    return out,err
