import sys, os; sys.path.insert(0, os.getcwd())
import types

# ---- small fake mpi4py: one Python process plays rank `rank` of `size` ----


class FakeComm:
    def __init__(self, size, rank, colours=None):
        self._size, self._rank = size, rank

    def Get_size(self):
        return self._size

    def Get_rank(self):
        return self._rank

    def Split(self, color=0, key=0):
        # the demo only uses the split "rank == drawRank": one process has
        # colour True, all the others colour False
        if color:
            return FakeComm(1, 0)
        return FakeComm(self._size - 1, self._rank - 1 if self._rank > 0 else 0)


mpi4py = types.ModuleType('mpi4py')
MPI = types.ModuleType('mpi4py.MPI')
MPI.Comm = FakeComm
MPI.COMM_WORLD = FakeComm(1, 0)
for name in ('DOUBLE', 'INT', 'SUM', 'MAX', 'MIN', 'IN_PLACE', 'COMPLEX', 'DOUBLE_COMPLEX'):
    setattr(MPI, name, name)
MPI.Wtime = lambda: 0.0
mpi4py.MPI = MPI
sys.modules['mpi4py'] = mpi4py
sys.modules['mpi4py.MPI'] = MPI

import pygyro
assert os.path.abspath(pygyro.__file__).startswith(os.path.abspath(os.getcwd()) + os.sep), pygyro.__file__
from pygyro.initialisation import setups

# C20 (last clause): the grid handed to the layout manager multiplies to the
# number of processes of the communicator the layouts are built on, and fits
# the distributed dimensions of the three standard layouts.


class _Stop(Exception):
    pass


record = {}


def recorder(comm, layouts, nprocs, eta_grids):
    record['size'] = comm.Get_size()
    record['nprocs'] = tuple(int(n) for n in nprocs)
    record['layouts'] = layouts
    raise _Stop()


setups.getLayoutHandler = recorder

bad = []
npts = [16, 32, 16, 16]
for plotThread in (False, True):
    for world in (2, 3, 4, 5, 7, 9, 13, 17):
        for rank in sorted({0, 1, world - 1}):
            record.clear()
            try:
                setups.setupCylindricalGrid('flux_surface', npts=list(npts),
                                            comm=FakeComm(world, rank),
                                            plotThread=plotThread, drawRank=0)
            except _Stop:
                pass
            except RuntimeError as e:
                # an error is only allowed if no factorisation exists
                n_layout = world - 1 if (plotThread and rank != 0) else (1 if plotThread else world)
                exists = any(n_layout % a == 0 and a <= min(npts[0], npts[3]) and
                             n_layout // a <= min(npts[2], npts[3]) for a in range(1, n_layout + 1))
                if exists:
                    bad.append((plotThread, world, rank, 'spurious error: %s' % e))
                continue
            n1, n2 = record['nprocs']
            ok = n1 * n2 == record['size']
            for order in record['layouts'].values():
                ok = ok and n1 <= npts[order[0]] and n2 <= npts[order[1]]
            if not ok:
                bad.append((plotThread, world, rank, record['nprocs'], 'layout comm size', record['size']))

if bad:
    print("PROPERTY VIOLATED in", len(bad), "configurations; first (plotThread, world size, rank, grid, ...):")
    for b in bad[:5]:
        print("  ", b)
    sys.exit(1)
print("C20 holds: grid matches the layout communicator in every configuration")
sys.exit(0)
