"""C17 - diagnostics and global reductions equal serial quadrature of the global field."""
from __future__ import annotations

import ast

import sympy as sp

from ..core import src, parent, guards_of
from .. import units as U
from .. import ispace as I
from ..ispace import IS, Ctx, eta_grid_tag, layout_param, L
from ..npsym import NpSym
from ..symx import Undecided

CLASSES = [(U.NORMS, "l2", "l2NormSquared"), (U.NORMS, "l1", "l1Norm"), (U.NORMS, "nParticles", "getN"),
           (U.ENERGY, "KineticEnergy", "getKE")]


# ---------------------------------------------------------------------------------------------------------------------
# Engine W: the constructor of a diagnostic class as a separable weight tensor (abstract interpretation)
#
# values: scalars (sympy), 1-D vectors tied to a dimension d in the global frame (position k = global index) or in the local
# frame (position k = global index start_d + k), given region-wise (one formula for all positions, or first / interior /
# last), windows [start_d:end_d) of global vectors, (r, v) outer products, shape lists and tensors {axis -> vector}.
# The coordinates are uninterpreted functions x_d(k) (theta and z uniform: x_d(k) = a_d + k h_d); the axes carrying r and
# v stay symbolic, only their order is fixed per configuration.  Helper functions of the module(s) are interpreted with the
# abstract arguments.  No repository code is run: every step is a symbolic rewriting of the expression tree.
# ---------------------------------------------------------------------------------------------------------------------
class WUndecided(Exception):
    pass


class WViolation(Exception):
    def __init__(self, msg, rule="C-axis-placement"):
        super().__init__(msg)
        self.rule = rule


_K = sp.Symbol("k", integer=True)
_XF = {d: sp.Function(f"x{d}") for d in range(4)}
_N = {d: sp.Symbol(f"N{d}", integer=True, positive=True) for d in range(4)}
_NL = {d: sp.Symbol(f"n{d}", integer=True, positive=True) for d in range(4)}
_S = {d: sp.Symbol(f"s{d}", integer=True, nonnegative=True) for d in range(4)}
_A = {d: sp.Symbol(f"a{d}", real=True) for d in (1, 2)}
_H = {d: sp.Symbol(f"h{d}", positive=True) for d in (1, 2)}
_DN = {0: "r", 1: "theta", 2: "z", 3: "v"}


def _coord(d, k):
    return _A[d] + k * _H[d] if d in (1, 2) else _XF[d](k)


def _same(a, b):
    try:
        return sp.simplify(sp.expand(a - b)) == 0
    except Exception:
        return False


class WVec:
    """shape: ('u', f) | ('e', first, fmid, last) | ('w', WVec in the global frame)"""

    def __init__(self, d, frame, n, shape):
        self.d, self.frame, self.n, self.shape = d, frame, n, shape

    def regions(self):
        k = self.shape[0]
        if k == "u":
            f = self.shape[1]
            return f(sp.Integer(0)), f, f(self.n - 1)
        if k == "e":
            return self.shape[1], self.shape[2], self.shape[3]
        raise WUndecided("regions of a window")

    def localised(self):
        """a window of a one-formula global vector as a vector of the local frame"""
        if self.shape[0] != "w":
            return self
        g = self.shape[1]
        if g.shape[0] != "u":
            raise WUndecided("a window of a region-wise vector is combined with a vector built from local points")
        f, s = g.shape[1], _S[self.d]
        return WVec(self.d, "L", self.n, ("u", lambda k, f=f, s=s: f(s + k)))


class WAxis:
    def __init__(self, d):
        self.d = d


class WPlaced:
    def __init__(self, vec, pos):
        self.vec, self.pos = vec, pos


class WOuter:
    def __init__(self, rows, cols):
        self.rows, self.cols = rows, cols


class WShape:
    def __init__(self, ndims, entries=None):
        self.ndims, self.entries = ndims, dict(entries or {})


class WEmpty:
    def __init__(self, shape):
        self.shape = shape
        self.filled = None


class WTensor:
    def __init__(self, ndims, factors, scalar=sp.Integer(1)):
        self.ndims, self.factors, self.scalar = ndims, dict(factors), scalar


class WFresh:
    """np.empty(n) / np.zeros(n) being filled by slice stores"""

    def __init__(self, n, zero):
        self.n, self.zero = n, zero
        self.first = self.last = sp.Integer(0) if zero else None
        self.mid = (lambda k: sp.Integer(0)) if zero else None
        self.d = self.frame = None

    def vec(self):
        if self.first is None or self.mid is None or self.last is None:
            raise WUndecided("an array created empty is used before all of its parts are assigned")
        return WVec(self.d, self.frame or "G", self.n, ("e", self.first, self.mid, self.last))


class WFn:
    def __init__(self, name, node=None, env=None):
        self.name, self.node, self.env = name, node, env


class WObj:
    def __init__(self, kind):
        self.kind = kind


class WRet(Exception):
    def __init__(self, v):
        self.v = v


def _vop(op, a, b):
    """element-wise binary operation on scalars / vectors / placed vectors / tensors"""
    def sc(x, y):
        if isinstance(op, ast.Add):
            return x + y
        if isinstance(op, ast.Sub):
            return x - y
        if isinstance(op, ast.Mult):
            return x * y
        if isinstance(op, ast.Div):
            return x / y
        if isinstance(op, ast.Pow):
            return x ** y
        raise WUndecided("operator")
    if isinstance(a, WFresh):
        a = a.vec()
    if isinstance(b, WFresh):
        b = b.vec()
    if isinstance(a, sp.Basic) and isinstance(b, sp.Basic):
        return sc(a, b)
    if isinstance(a, WTensor) or isinstance(b, WTensor):
        if not isinstance(op, ast.Mult):
            raise WUndecided("tensors are only multiplied")
        if isinstance(a, sp.Basic) or isinstance(b, sp.Basic):
            t, c = (a, b) if isinstance(a, WTensor) else (b, a)
            return WTensor(t.ndims, t.factors, t.scalar * c)
        if not (isinstance(a, WTensor) and isinstance(b, WTensor)) or a.ndims != b.ndims:
            raise WUndecided("product of a tensor with something else")
        fac = dict(a.factors)
        for k, v in b.factors.items():
            fac[k] = _vop(op, fac[k], v) if k in fac else v
        return WTensor(a.ndims, fac, a.scalar * b.scalar)
    if isinstance(a, WPlaced) or isinstance(b, WPlaced):
        if isinstance(a, sp.Basic) or isinstance(b, sp.Basic):
            p_, c = (a, b) if isinstance(a, WPlaced) else (b, a)
            return WPlaced(_vop(op, p_.vec, c) if p_ is a else _vop(op, c, p_.vec), p_.pos)
        if not (isinstance(a, WPlaced) and isinstance(b, WPlaced)):
            raise WUndecided("broadcast of a placed vector with an unplaced one")
        if a.pos == b.pos:
            return WPlaced(_vop(op, a.vec, b.vec), a.pos)
        if not isinstance(op, ast.Mult):
            raise WUndecided("outer combination other than a product")
        return WOuter(a.vec, b.vec) if a.pos == 0 else WOuter(b.vec, a.vec)
    if isinstance(a, WOuter) or isinstance(b, WOuter):
        raise WUndecided("arithmetic on an outer product")
    if isinstance(a, WVec) and isinstance(b, WVec):
        if a.frame != b.frame or (a.d is not None and b.d is not None and a.d != b.d):
            raise WUndecided(f"vectors of different dimensions/frames combined ({_DN.get(a.d)} {a.frame}, {_DN.get(b.d)} {b.frame})")
        if not _same(a.n, b.n):
            raise WUndecided(f"vectors of lengths {a.n} and {b.n} combined")
        d = a.d if a.d is not None else b.d
        if a.shape[0] == "w" and b.shape[0] == "w":
            return WVec(d, "L", a.n, ("w", _vop(op, a.shape[1], b.shape[1])))
        a, b = a.localised(), b.localised()
        if a.shape[0] == "u" and b.shape[0] == "u":
            fa, fb = a.shape[1], b.shape[1]
            return WVec(d, a.frame, a.n, ("u", lambda k: sc(fa(k), fb(k))))
        (a0, am, a1), (b0, bm, b1) = a.regions(), b.regions()
        return WVec(d, a.frame, a.n, ("e", sc(a0, b0), (lambda k: sc(am(k), bm(k))), sc(a1, b1)))
    v, c, left = (a, b, True) if isinstance(a, WVec) else (b, a, False)
    if not (isinstance(v, WVec) and isinstance(c, sp.Basic)):
        raise WUndecided(f"operands {type(a).__name__}, {type(b).__name__}")

    def ap(x):
        return sc(x, c) if left else sc(c, x)
    if v.shape[0] == "w":
        return WVec(v.d, "L", v.n, ("w", _vop(op, v.shape[1], c) if left else _vop(op, c, v.shape[1])))
    if v.shape[0] == "u":
        f = v.shape[1]
        return WVec(v.d, v.frame, v.n, ("u", lambda k: ap(f(k))))
    return WVec(v.d, v.frame, v.n, ("e", ap(v.shape[1]), (lambda k, f=v.shape[2]: ap(f(k))), ap(v.shape[3])))


def _vmap(fn, v):
    one = sp.Integer(1)
    if isinstance(v, sp.Basic):
        return fn(v)
    if isinstance(v, WFresh):
        v = v.vec()
    if isinstance(v, WVec):
        if v.shape[0] == "w":
            return WVec(v.d, "L", v.n, ("w", _vmap(fn, v.shape[1])))
        if v.shape[0] == "u":
            f = v.shape[1]
            return WVec(v.d, v.frame, v.n, ("u", lambda k: fn(f(k))))
        return WVec(v.d, v.frame, v.n, ("e", fn(v.shape[1]), (lambda k, f=v.shape[2]: fn(f(k))), fn(v.shape[3])))
    raise WUndecided("function applied to " + type(v).__name__)


class WInterp:
    def __init__(self, funcs, config, depth=0):
        self.funcs, self.config, self.depth = funcs, config, depth
        self.attrs = {}

    # ---------------------------------------------------------------- expressions
    def const_int(self, v):
        return int(v) if isinstance(v, sp.Basic) and v.is_Integer else None

    def ev(self, e, env):
        if isinstance(e, ast.Constant):
            if e.value is None:
                return None
            if isinstance(e.value, bool):
                return e.value
            if isinstance(e.value, int):
                return sp.Integer(e.value)
            if isinstance(e.value, float):
                return sp.nsimplify(e.value, rational=True)
            raise WUndecided(f"constant {e.value!r}")
        if isinstance(e, ast.Name):
            if e.id in env:
                return env[e.id]
            if e.id in self.funcs:
                return WFn(e.id, self.funcs[e.id])
            raise WUndecided(f"unknown name `{e.id}`")
        if isinstance(e, ast.Lambda):
            return WFn("<lambda>", e, dict(env))
        if isinstance(e, ast.Attribute):
            s_ = src(e)
            if s_ in ("np.square", "numpy.square"):
                return WFn("square")
            if s_ in ("np.pi", "math.pi"):
                return sp.pi
            base = self.ev(e.value, env)
            if isinstance(base, WObj) and base.kind == "self":
                if e.attr in self.attrs:
                    return self.attrs[e.attr]
                raise WUndecided(f"attribute `{s_}` read before it is assigned")
            if isinstance(base, WObj) and base.kind == "layout":
                if e.attr == "ndims":
                    return sp.Integer(self.config["ndims"])
                if e.attr in ("inv_dims_order", "starts", "ends", "shape", "name"):
                    return WObj("layout." + e.attr)
                raise WUndecided(f"layout attribute `{e.attr}`")
            if isinstance(base, WFresh) and e.attr in ("size",):
                return base.n
            if isinstance(base, WFresh):
                base = base.vec()
            if isinstance(base, WVec):
                if e.attr == "size":
                    return base.n
                if e.attr == "shape":
                    return (base.n,)
                if e.attr == "flat":
                    return base
            if isinstance(base, WOuter) and e.attr == "flat":
                return base
            if isinstance(base, WEmpty) and e.attr == "flat":
                return base
            raise WUndecided(f"attribute `{s_[:40]}`")
        if isinstance(e, ast.BinOp):
            a, b = self.ev(e.left, env), self.ev(e.right, env)
            if isinstance(a, list) and isinstance(e.op, ast.Mult) and self.const_int(b) is not None and len(a) == 1 and a[0] == 1:
                return WShape(self.const_int(b))
            if isinstance(b, list) and isinstance(e.op, ast.Mult) and self.const_int(a) is not None and len(b) == 1 and b[0] == 1:
                return WShape(self.const_int(a))
            if a is None or b is None or isinstance(a, (bool, list, tuple)) or isinstance(b, (bool, list, tuple)):
                raise WUndecided(f"operands of `{src(e)[:40]}`")
            return _vop(e.op, a, b)
        if isinstance(e, ast.UnaryOp):
            v = self.ev(e.operand, env)
            if isinstance(e.op, ast.USub):
                return _vop(ast.Mult(), sp.Integer(-1), v)
            if isinstance(e.op, ast.UAdd):
                return v
            if isinstance(e.op, ast.Not):
                t = self.truth(v)
                return not t
            raise WUndecided("unary operator")
        if isinstance(e, (ast.List, ast.Tuple)):
            if any(isinstance(x, ast.Starred) for x in e.elts):
                return self.concat(e, env)
            vals = [self.ev(x, env) for x in e.elts]
            if isinstance(e, ast.Tuple):
                return tuple(vals)
            if vals and all(isinstance(v, sp.Basic) and v == 1 for v in vals):
                return WShape(len(vals)) if len(vals) > 1 else [1]
            return vals
        if isinstance(e, ast.Compare) and len(e.ops) == 1:
            return self.compare(e, env)
        if isinstance(e, ast.BoolOp):
            vals = [self.truth(self.ev(v, env)) for v in e.values]
            return all(vals) if isinstance(e.op, ast.And) else any(vals)
        if isinstance(e, ast.IfExp):
            return self.ev(e.body if self.truth(self.ev(e.test, env)) else e.orelse, env)
        if isinstance(e, ast.Subscript):
            return self.subscript(e, env)
        if isinstance(e, ast.Call):
            return self.call(e, env)
        raise WUndecided(f"expression `{src(e)[:40]}`")

    def truth(self, v):
        if isinstance(v, bool):
            return v
        if v is None:
            return False
        raise WUndecided("a condition that does not follow from the configuration")

    def compare(self, e, env):
        op = e.ops[0]
        a, b = self.ev(e.left, env), self.ev(e.comparators[0], env)
        if isinstance(op, (ast.Is, ast.IsNot)):
            if b is not None:
                raise WUndecided("identity test")
            r = a is None
            return r if isinstance(op, ast.Is) else not r
        if isinstance(a, WAxis) and isinstance(b, WAxis) and {a.d, b.d} == {0, 3} and isinstance(op, (ast.Lt, ast.Gt, ast.LtE, ast.GtE)):
            r_first = self.config["order"] == "rv"
            less = r_first if a.d == 0 else not r_first
            return less if isinstance(op, (ast.Lt, ast.LtE)) else not less
        if isinstance(a, sp.Basic) and isinstance(b, sp.Basic):
            d_ = sp.simplify(a - b)
            if d_.is_number:
                return {ast.Eq: d_ == 0, ast.NotEq: d_ != 0, ast.Lt: d_ < 0, ast.LtE: d_ <= 0, ast.Gt: d_ > 0, ast.GtE: d_ >= 0}[type(op)]
        raise WUndecided(f"comparison `{src(e)[:40]}`")

    def concat(self, e, env):
        """[a, *mid, b] -> region-wise vector"""
        el = e.elts
        if not (len(el) == 3 and isinstance(el[1], ast.Starred) and not isinstance(el[0], ast.Starred) and not isinstance(el[2], ast.Starred)):
            raise WUndecided(f"list display `{src(e)[:40]}`")
        a, m, b = self.ev(el[0], env), self.ev(el[1].value, env), self.ev(el[2], env)
        if isinstance(m, WVec):
            m = m.localised() if m.shape[0] == "w" else m
        if not (isinstance(a, sp.Basic) and isinstance(b, sp.Basic) and isinstance(m, WVec) and m.shape[0] == "u"):
            raise WUndecided(f"list display `{src(e)[:40]}`")
        f = m.shape[1]
        return WVec(m.d, m.frame, m.n + 2, ("e", a, (lambda k: f(k - 1)), b))

    def slice_bounds(self, sl, env):
        if sl.step is not None:
            raise WUndecided("strided slice")
        lo = self.ev(sl.lower, env) if sl.lower is not None else None
        hi = self.ev(sl.upper, env) if sl.upper is not None else None
        return lo, hi

    def subscript(self, e, env):
        base = self.ev(e.value, env)
        if isinstance(base, WFresh):
            base = base.vec()
        if isinstance(base, WObj):
            idx = self.ev(e.slice, env) if not isinstance(e.slice, ast.Slice) else None
            if base.kind == "eta_grid":
                c = self.const_int(idx)
                if c is None or c not in range(4):
                    raise WUndecided(f"`{src(e)[:40]}`")
                if c == 3 and self.config["ndims"] == 3:
                    raise WUndecided("eta_grid[3] of a three-dimensional grid")
                return WVec(c, "G", _N[c], ("u", lambda k, c=c: _coord(c, k)))
            if base.kind == "layout.inv_dims_order":
                c = self.const_int(idx)
                if c is None:
                    raise WUndecided(f"`{src(e)[:40]}`")
                return WAxis(c)
            if base.kind in ("layout.starts", "layout.ends", "layout.shape"):
                if not isinstance(idx, WAxis):
                    raise WUndecided(f"`{src(e)[:50]}` is not subscripted by the axis of a dimension (engine C decides the sort)")
                return {"layout.starts": _S[idx.d], "layout.ends": _S[idx.d] + _NL[idx.d], "layout.shape": _NL[idx.d]}[base.kind]
            raise WUndecided(f"`{src(e)[:40]}`")
        if isinstance(base, tuple):
            c = self.const_int(self.ev(e.slice, env))
            if c is None:
                raise WUndecided("tuple index")
            return base[c]
        if isinstance(base, WVec):
            sl = e.slice
            if isinstance(sl, ast.Tuple):
                kinds = ["s" if (isinstance(x, ast.Slice) and x.lower is None and x.upper is None and x.step is None) else
                         "n" if (isinstance(x, ast.Constant) and x.value is None) or src(x) == "np.newaxis" else "?" for x in sl.elts]
                if kinds == ["s", "n"]:
                    return WPlaced(base, 0)
                if kinds == ["n", "s"]:
                    return WPlaced(base, 1)
                raise WUndecided(f"index `{src(e)[:40]}`")
            if isinstance(sl, ast.Slice):
                lo, hi = self.slice_bounds(sl, env)
                return self.vslice(base, lo, hi, e)
            i = self.ev(sl, env)
            c = self.const_int(i)
            if c is None:
                raise WUndecided(f"index `{src(e)[:40]}`")
            return self.velem(base, c)
        raise WUndecided(f"subscript `{src(e)[:40]}`")

    def velem(self, v, c):
        if v.shape[0] == "w":
            v = v.localised()
        if v.shape[0] == "u":
            return v.shape[1](sp.Integer(c) if c >= 0 else v.n + c)
        if c == 0:
            return v.shape[1]
        if c == -1:
            return v.shape[3]
        raise WUndecided("element of a region-wise vector")

    def vslice(self, v, lo, hi, e):
        a, b = (self.const_int(lo) if lo is not None else 0), (self.const_int(hi) if hi is not None else 0)
        if a is not None and b is not None and a >= 0 and b <= 0:
            if a == 0 and b == 0:
                return v
            if v.shape[0] == "w":
                v = v.localised()
            if v.shape[0] != "u":
                raise WUndecided("constant slice of a region-wise vector")
            f = v.shape[1]
            return WVec(v.d, v.frame, v.n + b - a, ("u", lambda k: f(k + a)))
        for d in range(4):
            if lo is not None and hi is not None and _same(lo, _S[d]) and _same(hi, _S[d] + _NL[d]):
                if v.frame != "G":
                    raise WUndecided("window of a vector that is already local")
                if v.d is None:
                    raise WUndecided("window of a vector that is not tied to a dimension")
                if v.d != d:
                    raise WViolation(f"`{src(e)[:70]}` cuts a table over {_DN.get(v.d)} with the block bounds of {_DN[d]}", "C-window")
                if not _same(v.n, _N[d]):
                    raise WViolation(f"`{src(e)[:70]}` cuts a vector of length {v.n} with the block bounds of the {_N[d]} grid points: "
                                     "the entries are shifted against the points", "C-window")
                return WVec(d, "L", _NL[d], ("w", v))
            if lo is None and hi is not None and _same(hi, _NL[d]) and v.frame == "G":
                raise WViolation(f"`{src(e)[:70]}` takes the first n_local entries of the global table: these belong to the first block, "
                                 "not to this process's block [start:end)", "C-window")
        raise WUndecided(f"slice `{src(e)[:50]}`")

    def call(self, e, env):
        f = src(e.func)
        args = [self.ev(a, env) for a in e.args]
        kw = {k.arg: self.ev(k.value, env) for k in e.keywords}
        if f in ("np.array", "np.asarray", "numpy.array") and len(args) == 1 and isinstance(args[0], (WVec, WFresh)):
            return args[0]
        if f in ("np.empty", "np.zeros", "np.ndarray") and args:
            a0 = args[0]
            if isinstance(a0, tuple) and len(a0) == 1:
                a0 = a0[0]
            if isinstance(a0, WShape):
                return WEmpty(a0)
            if isinstance(a0, sp.Basic):
                return WFresh(a0, f == "np.zeros")
            raise WUndecided(f"`{src(e)[:40]}`")
        if f in ("np.empty_like", "np.zeros_like") and args and isinstance(args[0], (WVec, WFresh)):
            return WFresh(args[0].n, f == "np.zeros_like")
        if f in ("np.diff",) and len(args) == 1 and isinstance(args[0], WVec) and not kw:
            v = args[0]
            return _vop(ast.Sub(), self.vslice(v, sp.Integer(1), None, e), self.vslice(v, None, sp.Integer(-1), e))
        if f in ("np.square",) and len(args) == 1:
            return _vmap(lambda x: x ** 2, args[0])
        if f in ("np.outer", "np.multiply.outer") and len(args) == 2 and all(isinstance(a, (WVec, WFresh)) for a in args):
            return WOuter(*[a.vec() if isinstance(a, WFresh) else a for a in args])
        if f == "len" and len(args) == 1 and isinstance(args[0], (WVec, WFresh)):
            return args[0].n
        if isinstance(e.func, ast.Attribute) and e.func.attr in ("reshape",):
            base = self.ev(e.func.value, env)
            if isinstance(base, WFresh):
                base = base.vec()
            sh = args[0] if len(args) == 1 else None
            if isinstance(base, WVec) and isinstance(sh, WShape):
                nz = {k: v for k, v in sh.entries.items()}
                if len(nz) == 1:
                    (k, v), = nz.items()
                    if not _same(v, base.n):
                        raise WUndecided("reshape to a different size")
                    return WTensor(sh.ndims, {k: base})
            raise WUndecided(f"`{src(e)[:50]}`")
        if isinstance(e.func, ast.Attribute) and e.func.attr == "copy" and not args:
            return self.ev(e.func.value, env)
        fv = None
        try:
            fv = self.ev(e.func, env)
        except WUndecided:
            pass
        if isinstance(fv, WFn):
            return self.apply(fv, args, kw)
        raise WUndecided(f"call `{src(e)[:50]}`")

    def apply(self, fv, args, kw):
        if fv.name == "square":
            return _vmap(lambda x: x ** 2, args[0])
        if fv.node is None or self.depth > 6:
            raise WUndecided(f"call of `{fv.name}`")
        if isinstance(fv.node, ast.Lambda):
            a = fv.node.args
            if len(a.args) != len(args) or kw:
                raise WUndecided("lambda arity")
            env = dict(fv.env or {})
            env.update({x.arg: v for x, v in zip(a.args, args)})
            return self.ev(fv.node.body, env)
        fn = fv.node
        formals = [x.arg for x in fn.args.args]
        if formals and formals[0] == "self":
            raise WUndecided("method call")
        if len(args) > len(formals) or any(k not in formals for k in kw):
            raise WUndecided(f"arguments of `{fv.name}`")
        env = dict(zip(formals, args))
        env.update(kw)
        for f_, d_ in zip(formals[len(formals) - len(fn.args.defaults):], fn.args.defaults):
            if f_ not in env:
                env[f_] = self.ev(d_, {})
        if any(f_ not in env for f_ in formals):
            raise WUndecided(f"arguments of `{fv.name}`")
        sub = WInterp(self.funcs, self.config, self.depth + 1)
        sub.attrs = self.attrs
        try:
            sub.block(fn.body, env)
        except WRet as r:
            return r.v
        return None

    # ---------------------------------------------------------------- statements
    def block(self, stmts, env):
        for st in stmts:
            self.stmt(st, env)

    def stmt(self, st, env):
        if isinstance(st, (ast.Assert, ast.Pass, ast.Import, ast.ImportFrom)):
            return
        if isinstance(st, ast.Expr):
            if isinstance(st.value, ast.Constant):
                return
            raise WUndecided(f"statement `{src(st)[:40]}`")
        if isinstance(st, ast.Return):
            raise WRet(self.ev(st.value, env) if st.value is not None else None)
        if isinstance(st, ast.If):
            self.block(st.body if self.truth(self.ev(st.test, env)) else st.orelse, env)
            return
        if isinstance(st, ast.Assign):
            v = self.ev(st.value, env)
            for t in st.targets:
                self.store(t, v, env, st)
            return
        if isinstance(st, ast.AnnAssign) and st.value is not None:
            self.store(st.target, self.ev(st.value, env), env, st)
            return
        if isinstance(st, ast.AugAssign):
            t = st.target
            if isinstance(t, ast.Subscript):
                base = self.ev(t.value, env)
                if isinstance(base, WFresh) and isinstance(st.op, ast.Add):
                    self.fresh_store(base, t, self.ev(st.value, env), env, add=True)
                    return
                raise WUndecided(f"`{src(st)[:40]}`")
            cur = self.ev(ast.Name(id=t.id, ctx=ast.Load()) if isinstance(t, ast.Name) else t, env)
            self.store(t, _vop(st.op, cur, self.ev(st.value, env)), env, st)
            return
        raise WUndecided(f"statement `{src(st)[:40]}`")

    def fresh_store(self, fr, t, val, env, add=False):
        sl = t.slice
        if isinstance(val, WFresh):
            val = val.vec()
        if isinstance(val, WVec) and val.shape[0] == "w":
            val = val.localised()

        def comb(old, new):
            return new if not add else (old + new)
        if isinstance(val, WVec):
            fr.d, fr.frame = (val.d if fr.d is None else fr.d), (val.frame if fr.frame is None else fr.frame)
        if isinstance(sl, ast.Slice):
            lo, hi = self.slice_bounds(sl, env)
            a, b = (self.const_int(lo) if lo is not None else 0), (self.const_int(hi) if hi is not None else 0)
            if a is None or b is None or a not in (0, 1) or b not in (0, -1):
                raise WUndecided(f"store into `{src(t)[:40]}`")
            if isinstance(val, WVec):
                if val.shape[0] != "u" or not _same(val.n, fr.n - a + b):
                    raise WUndecided(f"store into `{src(t)[:40]}`")
                f = val.shape[1]
                g = (lambda k: f(k - a))
            elif isinstance(val, sp.Basic):
                g = (lambda k: val)
            else:
                raise WUndecided(f"store into `{src(t)[:40]}`")
            if add and (fr.mid is None):
                raise WUndecided("accumulation into an uninitialised array")
            old_mid, old_first, old_last = fr.mid, fr.first, fr.last
            fr.mid = (lambda k: comb(old_mid(k), g(k))) if add else g
            if a == 0:
                fr.first = comb(old_first, g(sp.Integer(0))) if add else g(sp.Integer(0))
            if b == 0:
                fr.last = comb(old_last, g(fr.n - 1)) if add else g(fr.n - 1)
            return
        c = self.const_int(self.ev(sl, env))
        if c not in (0, -1) or not isinstance(val, sp.Basic):
            raise WUndecided(f"store into `{src(t)[:40]}`")
        if c == 0:
            fr.first = comb(fr.first, val) if add else val
        else:
            fr.last = comb(fr.last, val) if add else val

    def store(self, t, v, env, st):
        if isinstance(t, ast.Name):
            env[t.id] = v
            return
        if isinstance(t, (ast.Tuple, ast.List)):
            if not isinstance(v, (tuple, list)) or len(v) != len(t.elts):
                raise WUndecided(f"unpacking `{src(st)[:40]}`")
            for x, y in zip(t.elts, v):
                self.store(x, y, env, st)
            return
        if isinstance(t, ast.Attribute):
            if src(t.value) == "self":
                self.attrs[t.attr] = v
                env["self." + t.attr] = v
                return
            if t.attr == "flat":
                base = self.ev(t.value, env)
                if isinstance(base, WEmpty):
                    self.fill(base, v, st)
                    return
            raise WUndecided(f"store `{src(st)[:40]}`")
        if isinstance(t, ast.Subscript):
            base = self.ev(t.value, env)
            if isinstance(base, WShape):
                k = self.ev(t.slice, env)
                if not isinstance(k, WAxis) or not isinstance(v, sp.Basic):
                    raise WUndecided(f"shape entry `{src(st)[:50]}` (not the axis of a dimension)")
                base.entries[k.d] = v
                return
            if isinstance(base, WFresh):
                self.fresh_store(base, t, v, env)
                return
            raise WUndecided(f"store `{src(st)[:40]}`")
        raise WUndecided(f"store `{src(st)[:40]}`")

    def fill(self, empty, v, st):
        """C-order fill of np.empty(shape) from a flat iterator"""
        sh = empty.shape
        if isinstance(v, WFresh):
            v = v.vec()
        if isinstance(v, WVec):
            if len(sh.entries) != 1:
                raise WUndecided("a vector fills an array with several long axes")
            (d, n), = sh.entries.items()
            if not _same(n, v.n):
                raise WUndecided("flat fill of a different size")
            empty.filled = WTensor(sh.ndims, {d: v})
            return
        if isinstance(v, WOuter):
            if sorted(sh.entries) != [0, 3]:
                raise WUndecided("outer product fills an array whose long axes are not those of r and v")
            first, second = (0, 3) if self.config["order"] == "rv" else (3, 0)
            rows, cols = v.rows, v.cols
            if _same(sh.entries[first], rows.n) and _same(sh.entries[second], cols.n) and rows.d == first and cols.d == second:
                empty.filled = WTensor(sh.ndims, {first: rows, second: cols})
                return
            if not (rows.d == second and cols.d == first and rows.frame == cols.frame == "L"):
                raise WUndecided("flat fill of an outer product whose factors are not the local r and v vectors")
            raise WViolation(f"`{src(st)[:80]}`: the outer product (rows over {_DN.get(rows.d)}, columns over {_DN.get(cols.d)}) is written "
                             f"in C order into an array whose {_DN[first]} axis precedes its {_DN[second]} axis (layouts ordered "
                             f"{'r before v' if first == 0 else 'v before r'}): the weights are permuted among the (r,v) points "
                             "(their total is preserved, so a constant field still gives the analytic volume)")
        raise WUndecided(f"flat fill from {type(v).__name__}")


def _w_functions(chk, rel):
    """module-level functions visible from the unit: its own and those it imports from the sibling module"""
    out = {}
    for r in (U.NORMS, U.ENERGY):
        m = chk.mod(r)
        for q, f in m.functions().items():
            if "." not in q and (r == rel or q not in out):
                out[q] = f
    return out


def _trap(d):
    x, n = _XF[d], _N[d]
    h = sp.Rational(1, 2)
    return (x(1) - x(0)) * h, (lambda k: (x(k + 1) - x(k - 1)) * h), (x(n - 1) - x(n - 2)) * h


def _axis_spec(d, cls):
    t0, tm, t1 = _trap(d)
    x, n = _XF[d], _N[d]
    if d == 0:
        return t0 * x(0), (lambda k: tm(k) * x(k)), t1 * x(n - 1), "trapezoid weight x Jacobian r"
    if cls == "KineticEnergy":
        return t0 * x(0) ** 2, (lambda k: tm(k) * x(k) ** 2), t1 * x(n - 1) ** 2, "trapezoid weight x v^2"
    return t0, tm, t1, "trapezoid weight"


def weight_tensor(chk):
    """engine W on the four constructors, one run per configuration (number of dimensions, order of the r and v axes)"""
    for rel, cls, meth in CLASSES:
        q = f"{cls}.__init__"
        fn = chk.func(rel, q)
        funcs = _w_functions(chk, rel)
        configs = [{"ndims": 4, "order": "rv"}, {"ndims": 4, "order": "vr"}] + ([{"ndims": 3, "order": "rv"}] if cls == "l2" else [])
        for cfg in configs:
            tag = f"{cls} [{cfg['ndims']}-D" + (f", {'r before v' if cfg['order'] == 'rv' else 'v before r'}]" if cfg["ndims"] == 4 else "]")
            w = WInterp(funcs, cfg)
            formals = [a.arg for a in fn.args.args]
            if len(formals) != 3:
                chk.ob("F9-weight-tensor", fn, tag, None, "constructor signature changed", file=rel, func=q)
                continue
            env = {formals[0]: WObj("self"), formals[1]: WObj("eta_grid"), formals[2]: WObj("layout")}
            try:
                try:
                    w.block(fn.body, env)
                except WRet:
                    pass
            except WUndecided as e:
                chk.ob("F9-weight-tensor", fn, tag, None, f"the construction of the weights is outside the interpreted fragment: {e}", file=rel, func=q)
                continue
            except WViolation as e:
                chk.ob(e.rule, fn, tag, False, str(e), file=rel, func=q)
                continue
            f1, f2 = w.attrs.get("_factor1"), w.attrs.get("_factor2")
            if isinstance(f1, WEmpty):
                f1 = f1.filled
            if not isinstance(f1, WTensor) or not isinstance(f2, sp.Basic):
                chk.ob("F9-weight-tensor", fn, tag, None, f"self._factor1 / self._factor2 not obtained as a weight tensor and a scalar "
                       f"({type(f1).__name__}, {type(f2).__name__})", file=rel, func=q)
                continue
            # placement: which axes carry weights, and of which dimension
            want_axes = [0, 3] if cfg["ndims"] == 4 else [0]
            okp, whyp = True, "the r weights lie on the axis carrying r" + (", the v weights on the axis carrying v" if cfg["ndims"] == 4 else "") + \
                ", unit extent elsewhere; each is the [start:end) block of its global table"
            if f1.ndims != cfg["ndims"]:
                okp, whyp = False, f"the weight array has {f1.ndims} axes for a {cfg['ndims']}-dimensional layout"
            elif sorted(f1.factors) != want_axes:
                miss = [_DN[d] for d in want_axes if d not in f1.factors]
                okp, whyp = False, (f"weights lie on the axes of {[_DN[d] for d in sorted(f1.factors)]}" +
                                    (f"; the non-uniform dimension(s) {miss} are not weighted" if miss else ""))
            else:
                for d, v in f1.factors.items():
                    if not (isinstance(v, WVec) and v.frame == "L" and v.d == d and _same(v.n, _NL[d])):
                        okp, whyp = False, (f"the factor on the axis carrying {_DN[d]} is a vector over {_DN.get(getattr(v, 'd', None))} "
                                            f"({getattr(v, 'frame', '?')} frame, length {getattr(v, 'n', '?')})")
            chk.ob("C-axis-placement", fn, tag, okp, whyp, file=rel, func=q)
            if not okp:
                continue
            # the factor of each axis against the quadrature rule of the global grid
            for d in want_axes:
                v = f1.factors[d]
                s0, sm, s1, what = _axis_spec(d, cls)
                rule = "F9-jacobian" if d == 0 else "F9-trapezoid-weights"
                scal = f1.scalar if d == 0 else sp.Integer(1)
                if v.shape[0] == "w":
                    g0, gm, g1 = v.shape[1].regions()
                    pairs = [("the first point of the grid", g0 * scal, s0), ("an interior point k", gm(_K) * scal, sm(_K)),
                             ("the last point of the grid", g1 * scal, s1)]
                    note = ""
                else:
                    g0, gm, g1 = v.regions()
                    s = _S[d]
                    pairs = [("the first point of a block (global index s)", g0 * scal, sm(s)), ("a point k inside a block", gm(_K) * scal, sm(s + _K)),
                             ("the last point of a block", g1 * scal, sm(s + _NL[d] - 1))]
                    note = (" - the weights are built from the points of the local block, so every process treats the ends of its own "
                            "block as ends of the domain")
                diff = [(w_, g_, s_) for w_, g_, s_ in pairs if not _same(g_, s_)]
                ok = not diff
                chk.ob(rule, fn, f"{tag}: factor on the {_DN[d]} axis", ok,
                       f"{what} of the global {_DN[d]} grid, cut to the local block" if ok else
                       f"at {diff[0][0]} the code gives {sp.simplify(diff[0][1])}, the rule ({what}) needs {sp.simplify(diff[0][2])}" +
                       (note if v.shape[0] != "w" else ""), file=rel, func=q)
            want2 = _H[1] * _H[2] * (sp.Rational(1, 2) if cls == "KineticEnergy" else 1)
            ok2 = _same(f2, want2)
            if not ok2 and not (f2.free_symbols <= {_H[1], _H[2]}):
                ok2 = None          # written with other quantities (number of points, pi, ...): not compared
            chk.ob("F9-volume-factor", fn, f"{tag}: _factor2", ok2,
                   ("1/2 " if cls == "KineticEnergy" else "") + "dq dz (uniform periodic theta and z: rectangle rule)" if ok2 else
                   f"_factor2 = {sp.simplify(f2)}, expected {want2} (h1, h2 the spacings of theta and z)", file=rel, func=q)


def weight_windows(chk):
    """engine C on the constructors: locals that are typed as arrays over a window are the [start:end) block of the global table
    (the sort rules C-sort on starts/ends/inv_dims_order come from the engine itself)"""
    for rel, cls, meth in CLASSES:
        fn = chk.func(rel, f"{cls}.__init__")
        env = {"eta_grid": eta_grid_tag(), "layout": layout_param()}
        a = IS(chk, rel, f"{cls}.__init__", fn, env, Ctx(dist_dims=None), {})
        a.run()
        for name, d in (("mydrMult", 0), ("my_r", 0), ("mydvMult", 3), ("my_v", 3)):
            t = a.env.get(name)
            if not I.is_arr(t) or len(t[1]) != 1:
                continue
            w = t[1][0]
            ok = True if w == L(d) else False if (w is not None and w[0] in ("G", "P", "L", "Gm")) else None
            chk.ob("C-window", fn, f"{cls}: {name}", ok, f"`{name}` is the local block of the global {I.DIMNAMES[d]} table" if ok else
                   f"`{name}` is {I.tname(t)}, not the local block [start:end) of the {I.DIMNAMES[d]} table" +
                   ("" if ok is False else " (window not typed: decided by the weight-tensor rules)"), file=rel, func=f"{cls}.__init__")


class _Methods2Calls(ast.NodeTransformer):
    """x.conj() -> conj(x), x.real -> real(x), x.sum() -> np.sum(x): the element-wise model knows the function forms"""

    def visit_Call(self, n):
        self.generic_visit(n)
        if isinstance(n.func, ast.Attribute) and n.func.attr in ("conj", "conjugate") and not n.args and not n.keywords:
            return ast.Call(func=ast.Name(id="conj", ctx=ast.Load()), args=[n.func.value], keywords=[])
        if isinstance(n.func, ast.Attribute) and n.func.attr == "sum" and not n.args and not n.keywords and src(n.func.value) != "np":
            return ast.Call(func=ast.Attribute(value=ast.Name(id="np", ctx=ast.Load()), attr="sum", ctx=ast.Load()),
                            args=[n.func.value], keywords=[])
        return n

    def visit_Attribute(self, n):
        self.generic_visit(n)
        if n.attr in ("real", "imag") and isinstance(n.ctx, ast.Load) and src(n.value) not in ("np", "numpy"):
            return ast.Call(func=ast.Name(id=n.attr, ctx=ast.Load()), args=[n.value], keywords=[])
        return n


def integrands(chk):
    """value returned by the norm method, as a formula of the field f = a + i b, the weights and the volume factor"""
    from ..resolve import inline_locals, expand
    from ..npsym import SUMR
    a_, b_ = sp.symbols("a b", real=True)
    w, F2 = sp.Symbol("w", positive=True), sp.Symbol("F2", positive=True)
    f_ = a_ + sp.I * b_
    want_i = {"l2": (a_ ** 2 + b_ ** 2) * w, "l1": sp.Abs(a_) * w, "nParticles": a_ * w, "KineticEnergy": a_ * w}
    text = {"l2": "|f|^2", "l1": "|Re f|", "nParticles": "Re f", "KineticEnergy": "Re f"}
    for rel, cls, meth in CLASSES:
        m = chk.func(rel, f"{cls}.{meth}")
        q = f"{cls}.{meth}"
        if len(m.args.args) != 2:
            chk.ob("F9-integrand", m, q, None, "signature changed", file=rel, func=q)
            continue
        arg = m.args.args[1].arg
        rets = [n for n in ast.walk(m) if isinstance(n, ast.Return) and n.value is not None]
        if len(rets) != 1:
            chk.ob("F9-integrand", m, q, None, f"{len(rets)} return statements: not recognised", file=rel, func=q)
            continue
        e = _Methods2Calls().visit(expand(rets[0].value, inline_locals(m)))
        ast.fix_missing_locations(e)
        n_ = NpSym(env={"real": lambda z: sp.re(sp.expand(z)), "imag": lambda z: sp.im(sp.expand(z)), "conj": lambda z: sp.conjugate(z),
                        "conjugate": lambda z: sp.conjugate(z), "abs": lambda z: sp.Abs(z), "absolute": lambda z: sp.Abs(z)},
                   hooks={f"{arg}._f": f_, "self._factor1": w, "self._factor2": F2, f"{arg}.getAllData()": f_})
        try:
            got = n_.ev(e)
        except Undecided as ex:
            chk.ob("F9-integrand", rets[0], q, None, f"returned value outside the extractable fragment: {ex}", file=rel, func=q)
            continue
        want = SUMR(want_i[cls], sp.Symbol("axisall")) * F2
        sums = list(got.atoms(SUMR)) if hasattr(got, "atoms") else []
        oki = False
        if len(sums) == 1 and str(sums[0].args[1]) == "axisall":
            inner = sp.simplify(sp.expand(sums[0].args[0]))
            rest = sp.simplify(got / sums[0])
            oki = bool(sp.simplify(inner - sp.expand(want_i[cls])) == 0 and sp.simplify(rest - F2) == 0)
        elif not sums:
            oki = None
        # refused in any layout other than the one the weights were built for
        cmp_ = [n for n in ast.walk(m) if isinstance(n, ast.Compare) and len(n.ops) == 1 and
                {src(n.left), src(n.comparators[0])} == {"self._layout", f"{arg}.currentLayout"}]
        mentions = any(isinstance(n, ast.Attribute) and src(n) == "self._layout" for n in ast.walk(m))
        oka = True if any(isinstance(parent(c), (ast.Assert, ast.If)) for c in cmp_) else (None if mentions else False)
        ok = False if (oki is False or oka is False) else None if (oki is None or oka is None) else True
        if ok:
            why = text[cls] + " x local weights, summed, x volume factor; refused in any layout other than the one the weights were built for"
        elif oki is False:
            why = f"the method returns {got} (f = a + i b, w the weight array, F2 the volume factor); the diagnostic is sum({want_i[cls]}) * F2"
        elif oka is False:
            why = ("the method no longer compares the layout of the grid with the layout the weights were built for: in any other layout "
                   "the weights are applied to the wrong axes (or broadcast)")
        else:
            why = f"returned value {got} / layout test not recognised"
        chk.ob("F9-integrand", rets[0], q, ok, why, file=rel, func=q)


def coordinates_read_only(chk):
    """the constructors (and the helpers that receive eta_grid) only read the coordinate arrays, which every object shares"""
    from .. import lints
    seen = 0
    for rel in (U.NORMS, U.ENERGY):
        mod = chk.mod(rel)
        for q, fn in mod.functions().items():
            if not any(a.arg == "eta_grid" for a in fn.args.args):
                continue
            seen += 1
            muts = lints.shared_state_mutations(fn, lambda s_: s_ == "eta_grid" or s_.startswith("eta_grid["))
            chk.ob("G2-coordinates-read-only", muts[0][0] if muts else fn, f"{q}: eta_grid", not muts,
                   "the coordinate arrays are only read (views are not written through)" if not muts else
                   "; ".join(d for _, d in muts)[:300] + " - eta_grid is shared by the grid and by every object built from it: all "
                   "of them see the modified coordinates afterwards", file=rel, func=q)


# ---------------------------------------------------------------------------------------------------------------------
# DiagnosticCollector: rows, reductions, square roots, printed columns (three-valued, by structure)
# ---------------------------------------------------------------------------------------------------------------------
# row -> (class of the norm object, method, grid the object is built on, layout it is built for, grid handed to the method)
ROW_SPEC = {1: ("l2", "l2NormSquared", "phi", "v_parallel_2d", "phi"), 2: ("l2", "l2NormSquared", "distribFunc", "v_parallel", "f"),
            3: ("l1", "l1Norm", "distribFunc", "v_parallel", "f"), 4: ("nParticles", "getN", "distribFunc", "v_parallel", "f"),
            7: ("KineticEnergy", "getKE", "distribFunc", "v_parallel", "f")}
ROW_NAME = {0: "time", 1: "squared L2 norm of phi", 2: "squared L2 norm of f", 3: "L1 norm of f", 4: "number of particles",
            5: "minimum of f", 6: "maximum of f", 7: "kinetic energy"}
ROW_OP = {1: "MPI.SUM", 2: "MPI.SUM", 3: "MPI.SUM", 4: "MPI.SUM", 5: "MPI.MIN", 6: "MPI.MAX", 7: "MPI.SUM"}


def _single_def(fn, name):
    d = [n for n in ast.walk(fn) if isinstance(n, ast.Assign) and len(n.targets) == 1 and isinstance(n.targets[0], ast.Name)
         and n.targets[0].id == name]
    return d[0].value if len(d) == 1 else None


def _row_writes(col, table="self.diagnostics"):
    """{row: (slot source, value node)} for `table[K, slot] = v` with a constant K and for loops
    `for row, v in enumerate(<tuple>)` / `for row, v in ((K, v), ...)` writing `table[row, slot] = v`; None when a row index
    is computed some other way"""
    rows = {}

    def put(k, slot, val):
        if k in rows:
            rows[k] = (rows[k][0], rows[k][1], True)
        else:
            rows[k] = (src(slot), val, False)

    for n in ast.walk(col):
        if not (isinstance(n, ast.Assign) and len(n.targets) == 1 and isinstance(n.targets[0], ast.Subscript)
                and src(n.targets[0].value) == table):
            continue
        sl = n.targets[0].slice
        if not (isinstance(sl, ast.Tuple) and len(sl.elts) == 2):
            return None
        k, slot = sl.elts
        if isinstance(k, ast.Constant) and isinstance(k.value, int):
            put(k.value, slot, n.value)
            continue
        loop = parent(n)
        if not (isinstance(k, ast.Name) and isinstance(n.value, ast.Name) and isinstance(loop, ast.For) and len(loop.body) == 1
                and isinstance(loop.target, ast.Tuple) and [src(x) for x in loop.target.elts] == [k.id, n.value.id]):
            return None
        it = loop.iter
        start = 0
        if isinstance(it, ast.Call) and src(it.func) == "enumerate" and it.args:
            if len(it.args) > 1 or it.keywords:
                st_ = it.args[1] if len(it.args) > 1 else it.keywords[0].value
                if not (isinstance(st_, ast.Constant) and isinstance(st_.value, int)):
                    return None
                start = st_.value
            seq = it.args[0]
            if isinstance(seq, ast.Name):
                seq = _single_def(col, seq.id)
            if not isinstance(seq, (ast.Tuple, ast.List)) or any(isinstance(x, ast.Starred) for x in seq.elts):
                return None
            for j, v in enumerate(seq.elts):
                put(start + j, slot, v)
            continue
        if isinstance(it, ast.Name):
            it = _single_def(col, it.id)
        if isinstance(it, (ast.Tuple, ast.List)) and all(isinstance(x, (ast.Tuple, ast.List)) and len(x.elts) == 2 and
                                                           isinstance(x.elts[0], ast.Constant) for x in it.elts):
            for x in it.elts:
                put(x.elts[0].value, slot, x.elts[1])
            continue
        return None
    return rows


def _ctor_table(init):
    """attribute -> (class name, grid the eta_grid comes from, layout name) for `self.A = Cls(G.eta_grid, G.getLayout('name'))`"""
    out = {}
    for n in ast.walk(init):
        if isinstance(n, ast.Assign) and len(n.targets) == 1 and isinstance(n.targets[0], ast.Attribute) and \
                src(n.targets[0].value) == "self" and isinstance(n.value, ast.Call) and isinstance(n.value.func, ast.Name):
            b = n.value
            args = list(b.args) + [k.value for k in b.keywords]
            kw = {k.arg: k.value for k in b.keywords}
            eg = kw.get("eta_grid", b.args[0] if b.args else None)
            ly = kw.get("layout", b.args[1] if len(b.args) > 1 else None)
            if len(args) != 2 or eg is None or ly is None:
                continue
            g = src(eg.value) if isinstance(eg, ast.Attribute) and eg.attr == "eta_grid" else None
            lname, lg = None, None
            if isinstance(ly, ast.Call) and isinstance(ly.func, ast.Attribute) and ly.func.attr == "getLayout" and len(ly.args) == 1 \
                    and isinstance(ly.args[0], ast.Constant):
                lname, lg = ly.args[0].value, src(ly.func.value)
            out[n.targets[0].attr] = (b.func.id, g, lname, lg, n)
    return out


def collector(chk):
    col = chk.func(U.DIAG, "DiagnosticCollector.collect")
    red = chk.func(U.DIAG, "DiagnosticCollector.reduce")
    gl = chk.func(U.DIAG, "DiagnosticCollector.getLine")
    init = chk.func(U.DIAG, "DiagnosticCollector.__init__")
    F, Q = U.DIAG, "DiagnosticCollector."
    ctors = _ctor_table(init)
    cargs = [a.arg for a in col.args.args]              # self, f, phi, t
    iargs = [a.arg for a in init.args.args]             # self, comm, saveStep, dt, distribFunc, phi
    role = {}
    if len(cargs) == 4:
        role = {cargs[1]: "f", cargs[2]: "phi", cargs[3]: "t"}
    irole = {}
    if len(iargs) == 6:
        irole = {iargs[4]: "distribFunc", iargs[5]: "phi"}
    # ---- rows written by collect
    rows = _row_writes(col)
    if rows is None or not role:
        chk.ob("E6-diagnostic-rows", col, "collect: rows 0..7", None, "rows are written through a computed row index (or the signature of "
               "collect changed): not recognised", file=F, func=Q + "collect")
    else:
        verdicts = []
        for k in range(8):
            if k not in rows:
                verdicts.append((False, f"row {k} ({ROW_NAME[k]}) is never written: the column keeps the zeros of the allocation"))
                continue
            slot, v, twice = rows[k]
            if twice:
                verdicts.append((None, f"row {k} is written more than once"))
                continue
            scale = None
            if isinstance(v, ast.BinOp) and isinstance(v.op, (ast.Mult, ast.Div)):
                for c_, o_ in ((v.left, v.right), (v.right, v.left)):
                    if isinstance(c_, ast.Constant) and isinstance(c_.value, (int, float)) and isinstance(o_, ast.Call) and \
                            not (isinstance(v.op, ast.Div) and c_ is v.left):
                        scale, v = c_.value, o_
                        break
            got = None
            if k == 0:
                got = ("t",) if isinstance(v, ast.Name) and role.get(v.id) == "t" else ("name", src(v)) if isinstance(v, ast.Name) else None
                want = ("t",)
            elif isinstance(v, ast.Call) and isinstance(v.func, ast.Attribute) and len(v.args) + len(v.keywords) <= 1:
                recv, meth = v.func.value, v.func.attr
                arg = (v.args + [kw.value for kw in v.keywords] + [None])[0]
                argr = role.get(arg.id) if isinstance(arg, ast.Name) else None
                if isinstance(recv, ast.Name) and recv.id in role and arg is None:
                    got = ("grid", role[recv.id], meth)
                elif isinstance(recv, ast.Attribute) and src(recv.value) == "self" and recv.attr in ctors and argr:
                    c_ = ctors[recv.attr]
                    got = ("norm", c_[0], meth, irole.get(c_[1]), c_[2], irole.get(c_[3]), argr)
                want = ("grid", "f", {5: "getMin", 6: "getMax"}[k]) if k in (5, 6) else \
                    ("norm", ROW_SPEC[k][0], ROW_SPEC[k][1], ROW_SPEC[k][2], ROW_SPEC[k][3], ROW_SPEC[k][2], ROW_SPEC[k][4])
            else:
                want = None
            if got is None:
                verdicts.append((None, f"row {k}: value `{src(rows[k][1])[:60]}` not recognised"))
            elif got != want:
                verdicts.append((False, f"row {k} must hold the {ROW_NAME[k]} {want} but is given `{src(rows[k][1])[:70]}` = {got}: "
                                        "the documented column holds another quantity (or one computed with weights built for another "
                                        "grid/layout)"))
            elif scale is not None and scale != 1:
                verdicts.append((False, f"row {k} ({ROW_NAME[k]}) is stored scaled by {scale}: `{src(rows[k][1])[:70]}` - the local "
                                        "diagnostic that is summed is no longer the quadrature of the field (a factor belongs into the "
                                        "norm object, where every user gets it)"))
            else:
                verdicts.append((True, ""))
        slots = {rows[k][0] for k in rows}
        extra = sorted(k for k in rows if k not in range(8))
        bad = [m for o, m in verdicts if o is False]
        und = [m for o, m in verdicts if o is None]
        if len(slots) > 1:
            und.append(f"rows are written to different slot expressions {sorted(slots)}")
        if extra:
            und.append(f"undocumented rows {extra} are written")
        ok = False if bad else None if und else True
        chk.ob("E6-diagnostic-rows", col, "collect: rows 0..7", ok, "the eight documented quantities (norm objects of the documented class, "
               "built for the layout collect is called in) are written to rows 0..7 of one slot" if ok else "; ".join(bad or und),
               file=F, func=Q + "collect")
    # ---- allocation
    alloc = [n for n in ast.walk(init) if isinstance(n, ast.Assign) and src(n.targets[0]) == "self.diagnostics"]
    oka, whya = None, "allocation of self.diagnostics not recognised"
    if len(alloc) == 1 and isinstance(alloc[0].value, ast.Call) and src(alloc[0].value.func) in ("np.zeros", "np.empty", "np.ndarray") \
            and alloc[0].value.args and isinstance(alloc[0].value.args[0], (ast.List, ast.Tuple)) and len(alloc[0].value.args[0].elts) == 2:
        r_, s_ = alloc[0].value.args[0].elts
        if isinstance(r_, ast.Constant) and src(s_) in ("saveStep", "self.saveStep"):
            oka = r_.value >= 8
            whya = "8 rows x saveStep slots" if oka else f"only {r_.value} rows are allocated for the 8 documented quantities"
    chk.ob("E6-diagnostic-rows", alloc[0] if alloc else init, "diagnostics table: rows x slots", oka, whya, file=F, func=Q + "__init__")
    # ---- reductions
    reds, und = {}, []
    calls = [c for c in ast.walk(red) if isinstance(c, ast.Call) and isinstance(c.func, ast.Attribute) and c.func.attr in ("Reduce", "Allreduce")]
    calls.sort(key=lambda c: (c.lineno, c.col_offset))
    badr = []
    for c in calls:
        b = {}
        for nm, a_ in zip(("sendbuf", "recvbuf"), c.args):
            b[nm] = a_
        for kw in c.keywords:
            b[kw.arg] = kw.value
        if len(c.args) > 2:
            b.setdefault("op", c.args[2])
        if len(c.args) > 3:
            b.setdefault("root", c.args[3])
        s_ = b.get("sendbuf")
        row = None
        if isinstance(s_, ast.Subscript) and src(s_.value) == "self.diagnostics":
            e0 = s_.slice.elts[0] if isinstance(s_.slice, ast.Tuple) else s_.slice
            rest = s_.slice.elts[1:] if isinstance(s_.slice, ast.Tuple) else []
            if isinstance(e0, ast.Constant) and isinstance(e0.value, int) and all(src(x) == ":" for x in rest):
                row = e0.value
        rb = b.get("recvbuf")
        if row is None or rb is None or not (isinstance(rb, ast.Attribute) and src(rb.value) == "self"):
            und.append(f"`{src(c)[:70]}`: row / result array not recognised")
            continue
        op = src(b["op"]) if "op" in b else "MPI.SUM"
        root = src(b["root"]) if "root" in b else "0"
        if row in reds:
            badr.append(f"row {row} is reduced twice")
        reds[row] = (rb.attr, op, root, c)
    if not calls:
        und.append("no Reduce call found")
    if not und:
        for k in range(1, 8):
            if k not in reds:
                badr.append(f"row {k} ({ROW_NAME[k]}) is never reduced: its result array keeps zeros / the local value of one process")
            elif reds[k][1] != ROW_OP[k]:
                badr.append(f"row {k} ({ROW_NAME[k]}) is reduced with {reds[k][1]} instead of {ROW_OP[k]}: the reported value is not "
                            "that of the global field")
        attrs = [v[0] for v in reds.values()]
        dup = sorted({a_ for a_ in attrs if attrs.count(a_) > 1})
        if dup:
            badr.append(f"several rows are reduced into the same result array {dup}: the later reduction overwrites the earlier one")
        if 0 in reds:
            und.append("the time row is reduced as well")
        if len({v[2] for v in reds.values()}) > 1:
            badr.append(f"the rows are reduced to different roots {sorted({v[2] for v in reds.values()})}: no process holds the whole line")
    okr = False if badr else None if und else True
    chk.ob("E6-diagnostic-rows", red, "reduce: op per row", okr, "sums for the four integrals and the energy, MIN/MAX for the extrema, "
           "each row into its own result array on one root" if okr else "; ".join(badr or und), file=F, func=Q + "reduce")
    # ---- square roots: on the result arrays of the two L2 rows only, after the sums
    last_reduce = max((c.lineno for c in calls), default=0)
    sq, bads, unds = set(), [], []
    for fn_ in (col, red):
        for n in ast.walk(fn_):
            is_sqrt = isinstance(n, ast.Call) and src(n.func) in ("np.sqrt", "sqrt", "math.sqrt") or \
                (isinstance(n, ast.BinOp) and isinstance(n.op, ast.Pow) and src(n.right) in ("0.5", "1 / 2"))
            if not is_sqrt:
                continue
            arg = n.args[0] if isinstance(n, ast.Call) else n.left
            st = n
            while st is not None and not isinstance(st, ast.stmt):
                st = parent(st)
            tgt = st.targets[0] if isinstance(st, ast.Assign) and len(st.targets) == 1 else None
            if tgt is not None and isinstance(tgt, ast.Subscript) and src(tgt.slice) == ":":
                tgt = tgt.value
            if fn_ is col or "self.diagnostics" in src(arg):
                bads.append(f"`{src(st)[:70]}` takes a square root of the local contribution before the global sum: the sum over processes of "
                            "square roots is not the root of the summed squares")
            elif isinstance(arg, ast.Attribute) and src(arg.value) == "self" and tgt is not None and src(tgt) == src(arg):
                if st.lineno <= last_reduce:
                    bads.append(f"`{src(st)[:70]}` comes before the reduction that fills `{src(arg)}`")
                else:
                    sq.add(arg.attr)
            else:
                unds.append(f"`{src(st)[:70]}` not recognised")
    oks, whys = None, ""
    if 1 in reds and 2 in reds and not und:
        want = {reds[1][0], reds[2][0]}
        if bads:
            oks, whys = False, "; ".join(bads)
        elif sq - want:
            oks, whys = False, (f"the square root is applied to {sorted('self.' + x for x in sq - want)}, which hold(s) a quantity that is not a "
                                "squared norm")
        elif unds or sq != want:
            oks, whys = None, "; ".join(unds) or f"square roots found for {sorted(sq)} only (expected the two L2 result arrays {sorted(want)})"
        else:
            oks, whys = True, "the square root is applied to the two L2 rows only, after the global sum of the squared norms"
    else:
        whys = "the result arrays of the two L2 rows were not identified"
    chk.ob("E6-diagnostic-rows", red, "sqrt after reduction", oks, whys, file=F, func=Q + "reduce")
    # ---- printed columns
    cols = _format_columns(gl)
    okg, whyg = None, "format call of getLine not recognised"
    if cols is not None and not und and all(k in reds for k in range(1, 8)) and len(gl.args.args) == 2:
        i_ = gl.args.args[1].arg
        want = [f"self.diagnostics[0, {i_}]"] + [f"self.{reds[k][0]}[{i_}]" for k in range(1, 8)]
        got = [src(c_) for c_ in cols]
        if got == want:
            okg, whyg = True, "columns are printed in the documented order from the reduced arrays of slot i"
        elif sorted(got) == sorted(want):
            okg, whyg = False, f"the documented columns are printed in another order: {got}"
        elif any(g.startswith("self.diagnostics[") and not g.startswith("self.diagnostics[0,") for g in got):
            okg, whyg = False, ("a column is printed from the local table self.diagnostics instead of the reduced array: the line shows the "
                                f"contribution of one process: {[g for g in got if g.startswith('self.diagnostics[')]}")
        elif len(got) == len(want) and all(g == w or g.split("[")[0] in {w_.split("[")[0] for w_ in want} for g, w in zip(got, want)):
            wrong = [(g, w) for g, w in zip(got, want) if g != w]
            okg, whyg = False, f"columns read the wrong array or slot: {wrong[:3]}"
        else:
            whyg = f"printed columns {got} not recognised"
    chk.ob("E6-diagnostic-rows", gl, "getLine: column order", okg, whyg, file=F, func=Q + "getLine")


def _format_columns(gl):
    """expressions printed by getLine, in order: `'...{a}...{b}'.format(a=..., b=...)`, positional fields, or an f-string"""
    import string
    rets = [n for n in ast.walk(gl) if isinstance(n, ast.Return) and n.value is not None]
    if len(rets) != 1:
        return None
    v = rets[0].value
    if isinstance(v, ast.JoinedStr):
        return [x.value for x in v.values if isinstance(x, ast.FormattedValue)]
    if isinstance(v, ast.Call) and isinstance(v.func, ast.Attribute) and v.func.attr == "format":
        fmt = v.func.value
        if isinstance(fmt, ast.Name):
            fmt = _single_def(gl, fmt.id)
        if not (isinstance(fmt, ast.Constant) and isinstance(fmt.value, str)):
            return None
        kws = {k.arg: k.value for k in v.keywords}
        out, auto = [], 0
        try:
            for _, field, _, _ in string.Formatter().parse(fmt.value):
                if field is None:
                    continue
                if field == "":
                    out.append(v.args[auto])
                    auto += 1
                elif field.isdigit():
                    out.append(v.args[int(field)])
                elif field in kws:
                    out.append(kws[field])
                else:
                    return None
        except (ValueError, IndexError):
            return None
        return out
    return None


# ---------------------------------------------------------------------------------------------------------------------
# Grid.getMin / getMax: what every process hands to the reduction, on every path (helpers of the class followed)
# ---------------------------------------------------------------------------------------------------------------------
class _NoPaths(Exception):
    pass


def _subst(e, env):
    """copy of expression e with the names bound in env replaced (one pass: inserted expressions are not revisited)"""
    import copy

    class T(ast.NodeTransformer):
        def visit_Name(self, n):
            if isinstance(n.ctx, ast.Load) and n.id in env:
                return copy.deepcopy(env[n.id])
            return n

        def visit_Lambda(self, n):
            return n
    return T().visit(copy.deepcopy(e))


def _never_none(e):
    return isinstance(e, (ast.Call, ast.BinOp, ast.Subscript, ast.Tuple, ast.List, ast.Compare, ast.UnaryOp)) or \
        (isinstance(e, ast.Constant) and e.value is not None) or (isinstance(e, ast.Attribute) and src(e) in ("np.inf", "numpy.inf"))


def _fold(t):
    """truth value of a test when it follows from its form: True / False / None"""
    if isinstance(t, ast.Constant):
        return bool(t.value)
    if isinstance(t, ast.UnaryOp) and isinstance(t.op, ast.Not):
        v = _fold(t.operand)
        return None if v is None else not v
    if isinstance(t, ast.BoolOp):
        vs = [_fold(v) for v in t.values]
        if isinstance(t.op, ast.And):
            return False if any(v is False for v in vs) else True if all(v is True for v in vs) else None
        return True if any(v is True for v in vs) else False if all(v is False for v in vs) else None
    if isinstance(t, ast.Compare) and len(t.ops) == 1 and isinstance(t.ops[0], (ast.Is, ast.IsNot)) and \
            isinstance(t.comparators[0], ast.Constant) and t.comparators[0].value is None:
        l = t.left
        v = True if isinstance(l, ast.Constant) and l.value is None else False if _never_none(l) else None
        return None if v is None else (v if isinstance(t.ops[0], ast.Is) else not v)
    return None


def _first_open_ifexp(e):
    for n in ast.walk(e):
        if isinstance(n, ast.IfExp):
            return n
    return None


def _resolve_ifexp(e):
    """expression -> list of (conditions, expression) without conditional expressions"""
    import copy
    n = _first_open_ifexp(e)
    if n is None:
        return [([], e)]
    out = []
    v = _fold(n.test)
    for pol in (True, False):
        if v is not None and v != pol:
            continue

        class R(ast.NodeTransformer):
            def visit_IfExp(self, x, pol=pol):
                if x is n:
                    return copy.deepcopy(x.body if pol else x.orelse)
                return self.generic_visit(x)
        e2 = R().visit(e) if e is not n else copy.deepcopy(n.body if pol else n.orelse)
        for cs, e3 in _resolve_ifexp(copy.deepcopy(e2)):
            out.append((([] if v is not None else [(n.test, pol)]) + cs, e3))
    return out


class _PathWalk:
    """symbolic paths of a method: the conditions taken (tests with polarity, locals written back), the reduction calls met and
    the returned expression; loops are opaque (what they assign stays a name); calls of other methods of the class on `self`
    are followed through their own return paths"""

    def __init__(self, methods, depth=2, cap=96):
        self.methods, self.depth, self.cap = methods, depth, cap

    def run(self, fn, env=None):
        paths = []
        self._block(list(fn.body), dict(env or {}), [], [], paths, fn)
        for p in paths:
            if p[3] == "open":
                p[3] = None
        return [(c, ev, r) for c, ev, _, r in paths]

    def _finish(self, conds, events, env, ret, paths):
        paths.append([conds, events, env, ret])
        if len(paths) > self.cap:
            raise _NoPaths("too many paths")

    def _expr_alts(self, e, env, fn):
        """alternatives (conds, events, expr) of evaluating e: names written back, helper calls followed, conditional
        expressions split"""
        e = _subst(e, env)
        alts = [([], [], e)]
        # helper call on self at the top of the expression
        if isinstance(e, ast.Call) and isinstance(e.func, ast.Attribute) and src(e.func.value) == "self" and \
                e.func.attr in self.methods and self.depth > 0 and self.methods[e.func.attr] is not fn:
            callee = self.methods[e.func.attr]
            formals = [a.arg for a in callee.args.args][1:]
            if len(e.args) > len(formals) or any(k.arg not in formals for k in e.keywords):
                raise _NoPaths(f"call `{src(e)[:50]}` does not fit the helper's signature")
            benv = dict(zip(formals, e.args))
            benv.update({k.arg: k.value for k in e.keywords})
            defaults = callee.args.defaults
            for f_, d_ in zip(formals[len(formals) - len(defaults):], defaults):
                benv.setdefault(f_, d_)
            if any(f_ not in benv for f_ in formals):
                raise _NoPaths(f"call `{src(e)[:50]}` does not bind every parameter")
            sub = _PathWalk(self.methods, self.depth - 1, self.cap).run(callee, benv)
            alts = [(c, ev, r if r is not None else ast.Constant(value=None)) for c, ev, r in sub]
            return alts
        out = []
        for cs, e2 in _resolve_ifexp(e):
            out.append((cs, [], e2))
        return out

    def _events(self, e):
        return [n for n in ast.walk(e) if isinstance(n, ast.Call) and isinstance(n.func, ast.Attribute)
                and n.func.attr in ("reduce", "allreduce", "Reduce", "Allreduce")]

    def _block(self, stmts, env, conds, events, paths, fn):
        if not stmts:
            self._finish(conds, events, env, "open", paths)
            return
        st, rest = stmts[0], stmts[1:]
        if isinstance(st, ast.Return):
            if st.value is None:
                self._finish(conds, events, env, None, paths)
                return
            for cs, ev, e in self._expr_alts(st.value, env, fn):
                self._finish(conds + cs, events + ev + self._events(e), env, e, paths)
            return
        if isinstance(st, ast.Raise):
            return
        if isinstance(st, ast.If):
            for cs, ev, t in self._expr_alts(st.test, env, fn):
                v = _fold(t)
                for pol, body in ((True, st.body), (False, st.orelse)):
                    if v is not None and v != pol:
                        continue
                    sub = []
                    self._block(list(body), dict(env), conds + cs + ([] if v is not None else [(t, pol)]), events + ev, sub, fn)
                    for c2, e2, env2, r2 in sub:
                        if r2 == "open":
                            self._block(rest, env2, c2, e2, paths, fn)
                        else:
                            self._finish(c2, e2, env2, r2, paths)
            return
        if isinstance(st, (ast.For, ast.While)):
            if any(isinstance(n, (ast.Return, ast.Yield)) for n in ast.walk(st)):
                raise _NoPaths("a loop returns: paths through loops are not followed")
            ev = [c for n in ast.walk(st) for c in self._events(n)] if False else []
            if any(self._events(n) for n in ast.walk(st)):
                raise _NoPaths("a reduction inside a loop")
            env = dict(env)
            for n in ast.walk(st):
                if isinstance(n, ast.Name) and isinstance(n.ctx, ast.Store):
                    env.pop(n.id, None)
                elif isinstance(n, (ast.Subscript, ast.Attribute)) and isinstance(n.ctx, ast.Store):
                    b_ = n
                    while isinstance(b_, (ast.Subscript, ast.Attribute)):
                        b_ = b_.value
                    if isinstance(b_, ast.Name):
                        env.pop(b_.id, None)
            self._block(rest, env, conds, events + ev, paths, fn)
            return
        if isinstance(st, ast.Assign) and len(st.targets) == 1 and isinstance(st.targets[0], ast.Name):
            for cs, ev, e in self._expr_alts(st.value, env, fn):
                env2 = dict(env)
                env2[st.targets[0].id] = e
                self._block(rest, env2, conds + cs, events + ev + self._events(e), paths, fn)
            return
        if isinstance(st, (ast.Assign, ast.AugAssign, ast.AnnAssign, ast.Expr, ast.Assert, ast.Pass, ast.Import, ast.ImportFrom)):
            env = dict(env)
            for n in ast.walk(st):
                if isinstance(n, ast.Name) and isinstance(n.ctx, ast.Store):
                    env.pop(n.id, None)
            ev = []
            if not isinstance(st, ast.Assert):
                for f_ in ("value",):
                    v_ = getattr(st, f_, None)
                    if v_ is not None:
                        ev = self._events(_subst(v_, env))
            self._block(rest, env, conds, events + ev, paths, fn)
            return
        raise _NoPaths(f"statement `{src(st)[:50]}` not followed")


def _latch_flag(fn):
    """the ownership flag of the loop over the fixed axes: a name assigned a constant before the loop, assigned inside it and
    read after it -> (name, initial constant, loop, in-loop assignments, polarity-ok) or None"""
    for loop in [n for n in ast.walk(fn) if isinstance(n, ast.For)]:
        if not any(isinstance(n, ast.Subscript) and isinstance(n.ctx, ast.Store) for n in ast.walk(loop)):
            continue
        inside = {}
        for n in ast.walk(loop):
            if isinstance(n, ast.Assign) and len(n.targets) == 1 and isinstance(n.targets[0], ast.Name):
                inside.setdefault(n.targets[0].id, []).append(n)
            elif isinstance(n, ast.AugAssign) and isinstance(n.target, ast.Name):
                inside.setdefault(n.target.id, []).append(n)
        blk = None
        p = parent(loop)
        for f_ in ("body", "orelse"):
            if isinstance(getattr(p, f_, None), list) and loop in getattr(p, f_):
                blk = getattr(p, f_)
        if blk is None:
            continue
        k = blk.index(loop)
        after = {n.id for s_ in blk[k + 1:] for n in ast.walk(s_) if isinstance(n, ast.Name) and isinstance(n.ctx, ast.Load)}
        for name, asg in inside.items():
            pre = [s_ for s_ in blk[:k] if isinstance(s_, ast.Assign) and len(s_.targets) == 1 and src(s_.targets[0]) == name]
            if name in after and pre and isinstance(pre[-1].value, ast.Constant) and isinstance(pre[-1].value.value, bool):
                return name, pre[-1].value.value, loop, asg
    return None


def _cmp_atoms(t, env):
    """conjunction of comparisons -> list of (left src, op class, right src), chained comparisons split; None if not of that form"""
    from ..resolve import expand
    t = expand(t, env)
    parts = t.values if isinstance(t, ast.BoolOp) and isinstance(t.op, ast.And) else [t]
    out = []
    for p_ in parts:
        if not isinstance(p_, ast.Compare):
            return None
        l = p_.left
        for op, r in zip(p_.ops, p_.comparators):
            out.append((src(l), type(op), src(r)))
            l = r
    return out


_FLIP = {ast.Lt: ast.Gt, ast.Gt: ast.Lt, ast.LtE: ast.GtE, ast.GtE: ast.LtE, ast.Eq: ast.Eq, ast.NotEq: ast.NotEq}


def _slice_index_rule(chk, m, body_fn, q):
    """inside the loop over (axis number, fixed global index): the axis carrying the dimension, the ownership test
    start <= fix < end on that axis, and the local index fix - start -> (verdict, why, name of the index list)"""
    from ..resolve import inline_locals, expand
    env = {k: v for k, v in inline_locals(body_fn).items() if isinstance(v, (ast.Subscript, ast.Attribute, ast.BinOp, ast.Name))}
    loops = [n for n in ast.walk(body_fn) if isinstance(n, ast.For) and isinstance(n.target, ast.Tuple) and len(n.target.elts) == 2
             and all(isinstance(x, ast.Name) for x in n.target.elts)]
    loops = [l for l in loops if any(isinstance(n, ast.Subscript) and isinstance(n.ctx, ast.Store) for n in ast.walk(l))]
    if len(loops) != 1:
        return None, "the loop over the (axis, fixed index) pairs was not found", None
    loop = loops[0]
    targets = [x.id for x in loop.target.elts]
    stores = [n for n in ast.walk(loop) if isinstance(n, ast.Assign) and len(n.targets) == 1 and isinstance(n.targets[0], ast.Subscript)
              and isinstance(n.targets[0].value, ast.Name)]
    if len(stores) != 1:
        return None, f"{len(stores)} stores into an index list in the loop", None
    st = stores[0]
    idxname = st.targets[0].value.id
    De = expand(st.targets[0].slice, env)
    D = src(De)
    ax = None
    if isinstance(De, ast.Subscript) and src(De.value) == "self._layout.inv_dims_order" and isinstance(De.slice, ast.Name) and \
            De.slice.id in targets:
        ax = De.slice.id
    elif isinstance(De, ast.Name) and De.id in targets:
        return False, (f"`{src(st)[:60]}`: the list is indexed by `{D}`, which is a dimension number: the axis that carries it in this "
                       f"layout is self._layout.inv_dims_order[{D}]"), idxname
    elif isinstance(De, ast.Subscript) and src(De.value) == "self._layout.dims_order" and isinstance(De.slice, ast.Name) and \
            De.slice.id in targets:
        return False, (f"`{src(st)[:60]}`: the list is indexed by `{D}`: dims_order maps an axis to its dimension, the axis carrying "
                       f"dimension {De.slice.id} is self._layout.inv_dims_order[{De.slice.id}]"), idxname
    else:
        return None, f"index position `{D}` not recognised", idxname
    fix = [t for t in targets if t != ax][0]
    # which parameter feeds which loop name
    it = loop.iter
    if isinstance(it, ast.Call) and src(it.func) == "zip" and len(it.args) == 2:
        def base(e):
            return src(e.args[0]) if isinstance(e, ast.Call) and src(e.func) in ("np.atleast_1d", "np.array", "list", "tuple") and e.args else src(e)
        feeds = dict(zip(targets, (base(it.args[0]), base(it.args[1]))))
        if (feeds[ax], feeds[fix]) == ("fixValue", "axis"):
            return False, (f"`{src(loop)[:80]}`: the fixed values are used as axis numbers and the axis numbers as fixed indices "
                           "(the two sequences are paired with the wrong loop names)"), idxname
        if (feeds[ax], feeds[fix]) != ("axis", "fixValue"):
            return None, f"the sequences `{src(it)[:60]}` the loop runs over are not the parameters axis and fixValue", idxname
    else:
        return None, f"loop over `{src(it)[:60]}` not recognised", idxname
    v = st.value
    if isinstance(v, ast.Tuple) and len(v.elts) == 1:
        v = v.elts[0]
    V = src(expand(v, env))
    startD = f"self._layout.starts[{D}]"
    endD = f"self._layout.ends[{D}]"
    if V != f"{fix} - {startD}":
        if V == fix:
            return False, (f"`{src(st)[:60]}` uses the global index `{fix}` as a local index: on every process whose block does not start "
                           "at 0 another point (or none) is read"), idxname
        if V.startswith(f"{fix} - self._layout.starts[") or V == f"{fix} - self._layout.starts[{ax}]":
            return False, f"`{src(st)[:60]}` subtracts the start of another axis than the one indexed ({D})", idxname
        return None, f"stored local index `{V}` not recognised", idxname
    # ownership test guarding the store
    gs = [(t, pol) for t, pol, k in guards_of(st, stop=loop) if k == "if"]
    if len(gs) != 1 or not gs[0][1]:
        return None, "the test guarding the store is not a single `if`", idxname
    atoms = _cmp_atoms(gs[0][0], env)
    if atoms is None:
        return None, f"ownership test `{src(gs[0][0])[:60]}` not recognised", idxname
    norm = set()
    for l, op, r in atoms:
        if r == fix and op in _FLIP:
            l, op, r = r, _FLIP[op], l
        norm.add((l, op, r))
    want = {(fix, ast.GtE, startD), (fix, ast.Lt, endD)}
    if norm == want:
        return True, ("the fixed global index of dimension ax is looked up on the axis carrying ax, tested against [start, end) of that "
                      "axis and converted to a local index with that axis' start"), idxname
    if {(l, r) for l, _, r in norm} == {(l, r) for l, _, r in want} and all(op in (ast.Lt, ast.LtE, ast.Gt, ast.GtE) for _, op, _ in norm):
        return False, (f"ownership test `{src(gs[0][0])[:70]}` is not `start <= {fix} < end`: an index on a block boundary is assigned to "
                       "no process or to two (out-of-range local index / value taken from the neighbouring block)"), idxname
    return None, f"ownership test `{src(gs[0][0])[:60]}` not recognised", idxname


def extrema(chk):
    from .. import lints
    gmod = chk.mod(U.GRID)
    methods = gmod.methods("Grid")
    for m, neutral, op, red in (("getMin", "np.inf", "MPI.MIN", "amin"), ("getMax", "-np.inf", "MPI.MAX", "amax")):
        fn = chk.func(U.GRID, f"Grid.{m}")
        q = f"Grid.{m}"
        # the method together with the helpers of the class it calls on self
        group, todo = [fn], [fn]
        while todo:
            f_ = todo.pop()
            for c in ast.walk(f_):
                if isinstance(c, ast.Call) and isinstance(c.func, ast.Attribute) and src(c.func.value) == "self" and \
                        c.func.attr in methods and methods[c.func.attr] not in group and not c.func.attr.startswith("get"):
                    group.append(methods[c.func.attr])
                    todo.append(methods[c.func.attr])
        for g in group[1:]:
            chk.functions.add(f"{U.GRID}:Grid.{g.name}")
        # a query: nothing reachable from the grid is modified, so the answer does not depend on earlier requests
        muts = [x for g in group for x in lints.shared_state_mutations(g, lambda s_: s_.startswith("self."))]
        chk.ob("E7-query-purity", muts[0][0] if muts else fn, f"Grid.{m} modifies nothing of the grid", not muts,
               "the slice index is built in a fresh local list" if not muts else "; ".join(d for _, d in muts)[:300] +
               " - the index list is kept by the grid: an axis fixed by an earlier request stays fixed in later ones, which then report "
               "the extremum of the intersection of the slices", file=U.GRID, func=q)
        # ---- ownership flag: latched as soon as one fixed index is outside the local block
        flag = None
        okl, whyl = None, "no ownership flag (constant before the loop over the fixed axes, changed inside, read after) was found"
        for g in group:
            fl = _latch_flag(g)
            if fl:
                flag = fl
                name, c0, loop, asg = fl
                wrong = None
                for a_ in asg:
                    v_ = a_.value
                    if isinstance(a_, ast.AugAssign):
                        if not isinstance(a_.op, (ast.BitAnd if c0 else ast.BitOr)):
                            wrong = a_
                    elif isinstance(v_, ast.Constant) and v_.value is (not c0):
                        continue
                    elif isinstance(v_, ast.BoolOp) and isinstance(v_.op, ast.And if c0 else ast.Or) and \
                            any(isinstance(x, ast.Name) and x.id == name for x in v_.values):
                        continue
                    else:
                        wrong = a_
                if wrong is None:
                    okl, whyl = True, (f"{name} starts {c0} and can only be switched to {not c0} inside the loop over fixed axes: a rank owns "
                                       "the slice iff it owns every fixed index")
                else:
                    okl, whyl = False, (f"`{src(wrong)[:70]}` re-assigns {name} on every pass of the loop over the fixed axes, so only the "
                                        "last axis counts: a rank that misses an earlier fixed index but owns the last one contributes "
                                        "values from outside the slice")
                break
        chk.ob("E7-ownership-latch", flag[2] if flag else fn, f"Grid.{m}: ownership flag", okl, whyl, file=U.GRID, func=q)
        # ---- fixed index -> local index
        oki, whyi, idxname = None, "the loop over the fixed axes was not found", None
        for g in group:
            r_ = _slice_index_rule(chk, m, g, q)
            if r_[0] is not None or r_[2] is not None or g is group[-1]:
                oki, whyi, idxname = r_
                if r_[0] is not None or r_[2] is not None:
                    break
        chk.ob("E7-slice-index", fn, f"Grid.{m}: fixed index -> local index", oki, whyi, file=U.GRID, func=q)
        # ---- what every path hands to the reduction
        try:
            paths = _PathWalk({k: v for k, v in methods.items()}).run(fn)
        except _NoPaths as e:
            chk.ob("E7-neutral-element", fn, f"Grid.{m}: contributions", None, f"paths of the method not followed: {e}", file=U.GRID, func=q)
            continue
        bad, unknown, kinds = [], [], set()
        for conds, events, ret in paths:
            if not events:
                continue
            owns, whole, fixed, why_not, unrec = True, False, False, "", []
            pnames = {a.arg for a in fn.args.args}

            def atoms(t, pol):
                """(expression, polarity) facts that follow from `t` being `pol`"""
                if isinstance(t, ast.UnaryOp) and isinstance(t.op, ast.Not):
                    return atoms(t.operand, not pol)
                if isinstance(t, ast.BoolOp) and (isinstance(t.op, ast.And) == pol):
                    return [x for v_ in t.values for x in atoms(v_, pol)]
                return [(t, pol)]
            for t0, pol0 in conds:
                for t, pol in atoms(t0, pol0):
                    ts = src(t)
                    is_none = isinstance(t, ast.Compare) and len(t.ops) == 1 and isinstance(t.ops[0], (ast.Is, ast.IsNot)) and \
                        src(t.comparators[0]) == "None" and isinstance(t.left, ast.Name) and t.left.id in pnames
                    if ts in ("self._f.size == 0", "0 == self._f.size", "self._f.size < 1", "self._f.size <= 0"):
                        if pol:
                            owns, why_not = False, "empty"
                    elif ts in ("self._f.size != 0", "self._f.size > 0", "self._f.size", "0 < self._f.size", "self._f.size >= 1"):
                        if not pol:
                            owns, why_not = False, "empty"
                    elif flag and isinstance(t, ast.Name) and t.id == flag[0]:
                        if pol != flag[1]:
                            owns, why_not = False, "flag"
                    elif is_none:
                        if t.left.id in ("axis", "fixValue"):
                            if pol == isinstance(t.ops[0], ast.Is):
                                whole = True
                            else:
                                fixed = True
                    elif isinstance(t, ast.BoolOp) and all(isinstance(x, ast.Compare) and isinstance(x.ops[0], (ast.Is, ast.IsNot)) and
                                                           src(x.comparators[0]) == "None" and src(x.left) in ("axis", "fixValue") for x in t.values):
                        # a disjunction of `is None` facts that holds / a conjunction that fails: some index is fixed
                        kinds_ = {isinstance(x.ops[0], ast.Is) for x in t.values}
                        if len(kinds_) == 1 and (kinds_ == {True}) != pol:
                            fixed = True
                        elif len(kinds_) == 1 and (kinds_ == {False}) and pol:
                            fixed = True
                        else:
                            unrec.append(ts)
                    else:
                        unrec.append(ts)
            for c in events:
                a0 = c.args[0] if c.args else next((k.value for k in c.keywords if k.arg in ("sendobj", "sendbuf")), None)
                opk = [src(k.value) for k in c.keywords if k.arg == "op"] or ([src(c.args[1])] if len(c.args) > 1 else [])
                if not opk or opk[0] != op:
                    bad.append(f"`{src(c)[:60]}` does not reduce with {op}" + ("" if opk else " (the default is a sum)"))
                if a0 is None:
                    unknown.append(src(c)[:40])
                    continue
                a0s = src(a0)
                literal = a0s in ("np.inf", "-np.inf", "np.nan", "None") or (isinstance(a0, ast.Constant)) or \
                    (isinstance(a0, ast.UnaryOp) and isinstance(a0.operand, ast.Constant))
                # red(np.real(self._f)) / red(np.real(self._f[tuple(idx)]))
                inner, fname = None, None
                if isinstance(a0, ast.Call) and src(a0.func) in ("np.amin", "np.amax", "np.min", "np.max", "min", "max") and len(a0.args) == 1:
                    fname, inner = src(a0.func).split(".")[-1], a0.args[0]
                elif isinstance(a0, ast.Call) and isinstance(a0.func, ast.Attribute) and a0.func.attr in ("min", "max") and not a0.args:
                    fname, inner = a0.func.attr, a0.func.value
                if fname is not None:
                    fname = {"min": "amin", "max": "amax"}.get(fname, fname)
                sel = None
                if inner is not None and isinstance(inner, ast.Call) and src(inner.func) == "np.real" and len(inner.args) == 1:
                    x = inner.args[0]
                    if src(x) == "self._f":
                        sel = "all"
                    elif isinstance(x, ast.Subscript) and src(x.value) == "self._f":
                        sx = src(x.slice)
                        sel = "slice" if idxname and sx in (f"tuple({idxname})", idxname) else "other"
                if unrec:
                    unknown.append(f"`{a0s[:50]}` under the unrecognised condition(s) {unrec[:2]}")
                elif owns:
                    if sel == "slice" and fname == red and not whole:
                        kinds.add("own-slice")
                    elif sel == "all" and fname == red and whole:
                        kinds.add("own-all")
                    elif sel == "all" and fname == red and not fixed:
                        unknown.append(f"`{a0s[:50]}` (not known whether indices are fixed on this path)")
                    elif literal:
                        bad.append(f"a process that owns part of the requested points contributes `{a0s}` instead of {red}(real(local values))")
                    elif fname is not None and fname != red and sel in ("all", "slice"):
                        bad.append(f"the local contribution is `{a0s[:60]}`: {fname} instead of {red}")
                    elif sel == "all" and not whole and fname == red:
                        bad.append(f"with fixed indices requested the process contributes `{a0s[:60]}`, the extremum of its whole block "
                                   "instead of the requested slice")
                    else:
                        unknown.append(a0s[:60])
                else:
                    if a0s == neutral:
                        kinds.add("neutral-" + why_not)
                    elif literal:
                        bad.append(f"a process without data of the slice contributes `{a0s}` instead of the neutral element {neutral} of {op}")
                    elif why_not == "flag" and sel in ("all", "slice", "other"):
                        bad.append(f"a process that does not own the fixed indices still contributes `{a0s[:60]}`: values from outside "
                                   "the slice enter the extremum")
                    else:
                        unknown.append(a0s[:60])
        need = {"neutral-empty", "neutral-flag"}
        okn = False if bad else None if unknown or not (need <= kinds) or not (kinds & {"own-all", "own-slice"}) else True
        chk.ob("E7-neutral-element", fn, f"Grid.{m}: contributions on every path", okn,
               f"ranks that own part of the slice contribute their local extremum, all others the neutral element {neutral}" if okn
               else ("; ".join(dict.fromkeys(bad)) or (f"contributions {sorted(set(unknown))} not recognised" if unknown else
                                                        f"path kinds found: {sorted(kinds)}; expected an owning path and neutral "
                                                        "contributions for an empty block and for a slice owned elsewhere")),
               file=U.GRID, func=q)


def run(chk):
    chk.explanation = (
        "Engine W (abstract interpretation of the four diagnostic constructors, helper functions followed): self._factor1 is a "
        "separable tensor whose factor on the axis carrying r is the [start:end) block of (trapezoid weight x r) of the global r grid "
        "and whose factor on the axis carrying v is the block of the trapezoid weight (x v^2 for the energy), for both orders of the "
        "two axes and for the 3-D potential; self._factor2 = dq dz (x 1/2); engine C types the named windows; the value returned by "
        "each norm method as a formula of f = a + i b, the weights and the volume factor; the coordinate arrays are only read; "
        "DiagnosticCollector: classes/layouts/arguments of the eight rows, reduction op and result array per row, square roots only "
        "after the sums, printed column order; Grid.getMin/getMax: what every symbolic path (helpers followed) hands to the reduction, "
        "ownership latch, fixed global index -> axis and local index, query purity. The slot<->step relation of the driver's "
        "printing and the analytic volume factors are not decided.")
    chk.assumptions += ["theta and z grids are uniform (x_d(k) = a_d + k h_d): the rectangle rule's spacing may be taken between any two "
                        "neighbouring points", "1 <= number of points per block; at least 3 points in r and v"]
    chk.in_file(U.NORMS)
    weight_windows(chk)
    weight_tensor(chk)
    integrands(chk)
    coordinates_read_only(chk)
    collector(chk)
    extrema(chk)
    chk.floor("C-window", 2)
    chk.floor("C-axis-placement", 5)
    chk.floor("F9-", 12)
    chk.floor("G2-", 2)
    chk.floor("E6-", 5)
    chk.floor("E7-", 6)
