"""C07 - spline evaluation equals the mathematical B-spline on every entry point.

Decides (DESIGN 5/C07): fast/general path dispatch agreement; for every evaluator and every
derivative-flag combination the contraction  sum_j c[span-deg+j] * B^(der)_j(x)  with the basis
routine, knots/degree/point/span (resp. span/offset/cell size) of the same dimension; the uniform
cubic basis is the cardinal cubic B-spline (polynomial identities); the uniform span search is
consistent with the coefficient window at the right end point; periodic wrap of unit coefficient
vectors; evaluators do not write into the coefficient array.  The Cox-de Boor recursion and the
binary span search are data-dependent loops and are not decided.

Entry points (Spline1D/Spline2D.eval, eval_vector) are read after path specialisation
(`Specialiser`: locals that only rename an attribute are replaced by it, calls of other methods of
the class are replaced by their bodies, guard clauses and if/else read alike; nothing is executed).
A hand-over to the kernels is recognised as `if T: cu_f(..) else: nu_f(..)`, as the conditional
expression of two calls, or as `(cu_f if T else nu_f)(..)`.  Each rule is three-valued: HOLDS for the
recognised mechanism, VIOLATED only for a recognised wrong form (other family's routine, another
role's argument, exchanged or folded evaluation points, a test on another attribute), UNDECIDED
otherwise.  The Specialiser is shared with C08 and C09.

Conventions are compared relationally: `uniform_span_analysis` reads cu_find_span as a piecewise
function and extracts the K of "index returned = cell + K"; the uniform evaluators (here) and the
collocation matrix (C08, C09) must read the window that starts at (index - K), whatever K is.  A
routine taken from a two-entry module-level table by a flag reads as the conditional expression
of its two entries (`resolve_dispatch_tables`); loops written `for v in A`, `zip(A, B)` or with a
running counter read as `enumerate` (`_loop_headers`).  `pointwise` finds scalars carried from one
point of an array to the next (upward-exposed uses in the body of a loop over the points).
"""
from __future__ import annotations

import ast
import re

import sympy as sp
from sympy import Symbol, Function, Integer, Rational

from ..core import src, AnalysisError, parent
from .. import units as U
from ..symx import SymExec, Arr, make_args, Undecided, alg_equal, ITE
from .. import agree, lints

NB = Function("NB")          # NB(knots, degree, x, span, j, der): j-th non-vanishing general B-spline (or its 1st derivative)
CB = Function("CB")          # CB(span, offset, j): uniform cubic value;  CB1(span, offset, dx, j): derivative
CB1 = Function("CB1")
NSPAN = Function("NSPAN")
CSPAN = Function("CSPAN")
COFF = Function("COFF")


def A(v):
    return Symbol("arr_" + v.name) if isinstance(v, Arr) else v


# The uninterpreted functions above give each ARGUMENT POSITION of the six low-level routines a role (knots, degree, point, span, output).
# That is a contract between the routine and its callers: it is the contract of the reference tree only as long as the routine keeps the
# parameter list below (names and order).  `ROUTINE_FORMALS_NOW` is filled by `check_evaluator` with the parameter lists the analysed tree
# really has; a handler meeting a routine whose list differs, or a call it cannot bind to that list (star arguments, unknown keywords,
# missing arguments), raises Undecided: the roles of the actuals are then not known and nothing may be concluded from the extraction.
ROUTINE_FORMALS = {"nu_find_span": ["knots", "degree", "x"], "cu_find_span": ["xmin", "xmax", "dx", "x", "ncells"],
                   "nu_basis_funs": ["knots", "degree", "x", "span", "values"], "nu_basis_funs_1st_der": ["knots", "degree", "x", "span", "ders"],
                   "cu_basis_funs": ["span", "offset", "values"], "cu_basis_funs_1st_der": ["span", "offset", "dx", "ders"]}
ROUTINE_FORMALS_NOW = {}


ROUTINE_KINDS = {"nu_find_span": "aif", "cu_find_span": "ffffi", "nu_basis_funs": "aifia", "nu_basis_funs_1st_der": "aifia",
                 "cu_basis_funs": "ifa", "cu_basis_funs_1st_der": "iffa"}        # a = array, i = integer, f = real (by annotation)
ROUTINE_KINDS_NOW = {}


def same_parameter_roles(name):
    """does the routine still take its arguments in the reference order?  A renamed parameter keeps its position (and its role); a
    parameter list of another length, one that carries a reference name at ANOTHER position, or one whose annotated kinds (array / integer /
    real) do not fit the reference kinds position by position, is another contract."""
    want = ROUTINE_FORMALS[name]
    now = ROUTINE_FORMALS_NOW.get(name, want)
    if len(now) != len(want):
        return False
    if any(n_ != w_ and n_ in want for n_, w_ in zip(now, want)):
        return False
    kinds = ROUTINE_KINDS_NOW.get(name)
    if kinds is not None and any(k_ != "?" and k_ != w_ for k_, w_ in zip(kinds, ROUTINE_KINDS[name])):
        return False
    return True


def _actuals(call, name):
    """the actual arguments of a call of a low-level routine in the order of its parameter list (positional or keyword)"""
    want = ROUTINE_FORMALS[name]
    now = ROUTINE_FORMALS_NOW.get(name, want)
    if not same_parameter_roles(name):
        raise Undecided(f"`{name}` has the parameters {now}, not {want}: the roles of its arguments are not the ones the analysis knows")
    if any(isinstance(a, ast.Starred) for a in call.args) or any(k.arg is None for k in call.keywords):
        raise Undecided(f"`{src(call)[:60]}` passes star arguments")
    b = agree.bind_call(call, now)
    if b is None or set(b) != set(now):
        raise Undecided(f"`{src(call)[:60]}` does not bind the parameters {now} one to one")
    return [b[f_] for f_ in now]


def h_nu_find_span(ex, call):
    k, d, x = (ex.ev(a) for a in _actuals(call, "nu_find_span"))
    return NSPAN(A(k), d, x)


def h_cu_find_span(ex, call):
    a = [ex.ev(x) for x in _actuals(call, "cu_find_span")]
    return (CSPAN(*a), COFF(*a))


def _fill(ex, out_node, fn):
    out = ex.ev(out_node)
    if not isinstance(out, Arr):
        raise Undecided("basis output is not an array")
    out.cells = {}
    out.generic = fn
    return sp.S.NaN


def h_nu_basis(der):
    def h(ex, call):
        acts = _actuals(call, "nu_basis_funs_1st_der" if der else "nu_basis_funs")
        k, d, x, s_ = (ex.ev(a) for a in acts[:4])
        return _fill(ex, acts[4], lambda ix, k=k, d=d, x=x, s_=s_: NB(A(k), d, x, s_, ix[0], Integer(der)))
    return h


def h_cu_basis(ex, call):
    acts = _actuals(call, "cu_basis_funs")
    s_, o = (ex.ev(a) for a in acts[:2])
    return _fill(ex, acts[2], lambda ix, s_=s_, o=o: CB(s_, o, ix[0]))


def h_cu_basis_der(ex, call):
    acts = _actuals(call, "cu_basis_funs_1st_der")
    s_, o, dx = (ex.ev(a) for a in acts[:3])
    return _fill(ex, acts[3], lambda ix, s_=s_, o=o, dx=dx: CB1(s_, o, dx, ix[0]))


HANDLERS = {"nu_find_span": h_nu_find_span, "cu_find_span": h_cu_find_span, "nu_basis_funs": h_nu_basis(0),
            "nu_basis_funs_1st_der": h_nu_basis(1), "cu_basis_funs": h_cu_basis, "cu_basis_funs_1st_der": h_cu_basis_der}
SPLINE_HANDLERS = HANDLERS


def basis_spec(fam, dim, args, x, der):
    """(span, degree-count, basis function j -> expr) of dimension `dim` (1-based, or 0 for 1-D evaluators)"""
    if fam == "nu":
        k = args["knots"] if dim == 0 else args[f"kts{dim}"]
        d = args["degree"] if dim == 0 else args[f"deg{dim}"]
        span = NSPAN(A(k), d, x)
        return span, d, (lambda j: NB(A(k), d, x, span, j, Integer(der))), d
    k = args["knots"] if dim == 0 else args[f"kts{dim}"]
    d = args["degree"] if dim == 0 else args[f"deg{dim}"]
    xmin, xmax, dx, fn = (k.fn(Integer(i)) for i in range(4))
    nc = Function("toint")(fn)
    span, off = CSPAN(xmin, xmax, dx, x, nc), COFF(xmin, xmax, dx, x, nc)
    if der == 0:
        return span, Integer(3), (lambda j: CB(span, off, j)), d
    return span, Integer(3), (lambda j: CB1(span, off, dx, j)), d


def _ends(block):
    """does every path through the block end with return / raise?"""
    if not block:
        return False
    last = block[-1]
    if isinstance(last, (ast.Return, ast.Raise)):
        return True
    if isinstance(last, ast.If):
        return _ends(last.body) and _ends(last.orelse)
    return False


def _guards_to_else(stmts):
    """`if c: ...; return` followed by more statements reads as `if c: ... else: <the rest>` (no statement is executed or reordered)"""
    out = []
    for k, st in enumerate(stmts):
        if isinstance(st, ast.If):
            body, orelse = _guards_to_else(st.body), _guards_to_else(st.orelse)
            rest = stmts[k + 1:]
            if rest and _ends(body) and not _ends(orelse):
                out.append(ast.copy_location(ast.If(test=st.test, body=body, orelse=orelse + _guards_to_else(rest)), st))
                return out
            if rest and _ends(orelse) and not _ends(body):
                out.append(ast.copy_location(ast.If(test=st.test, body=body + _guards_to_else(rest), orelse=orelse), st))
                return out
            out.append(ast.copy_location(ast.If(test=st.test, body=body, orelse=orelse), st))
            if _ends(out):
                return out
            continue
        if isinstance(st, (ast.For, ast.While, ast.With)):
            st = clone(st)
            st.body = _guards_to_else(st.body)
            if getattr(st, "orelse", None):
                st.orelse = _guards_to_else(st.orelse)
        out.append(st)
        if isinstance(st, (ast.Return, ast.Raise)):
            return out
    return out


def _loop_headers(fn):
    """`for v in A` / `for u, v in zip(A, B)` over array parameters read as `for _i, v in enumerate(A)` (with `u = A[_i]; v = B[_i]`), and a
    counter that is 0 before such a loop and incremented once at the end of its body reads as the index of the iteration: the three ways
    of writing a loop over the points look alike (no statement is executed)"""
    params = {a.arg for a in fn.args.args}
    cnt = _stores(fn)
    changed = False

    def visit(stmts):
        nonlocal changed
        for k, st in enumerate(stmts):
            for f in ("body", "orelse"):
                b = getattr(st, f, None)
                if isinstance(b, list) and b and isinstance(b[0], ast.stmt):
                    visit(b)
            if not isinstance(st, ast.For) or st.orelse:
                continue
            it, idx = st.iter, None
            if isinstance(it, ast.Name) and it.id in params and cnt.get(it.id, 0) == 0 and isinstance(st.target, ast.Name):
                idx = f"_i{st.lineno}"
                st.target = ast.Tuple(elts=[ast.Name(id=idx, ctx=ast.Store()), st.target], ctx=ast.Store())
                st.iter = ast.Call(func=ast.Name(id="enumerate", ctx=ast.Load()), args=[it], keywords=[])
                changed = True
            elif isinstance(it, ast.Call) and src(it.func) == "zip" and len(it.args) >= 2 and not it.keywords and \
                    all(isinstance(a, ast.Name) and a.id in params and cnt.get(a.id, 0) == 0 for a in it.args) and \
                    isinstance(st.target, ast.Tuple) and len(st.target.elts) == len(it.args) and all(isinstance(t, ast.Name) for t in st.target.elts):
                idx = f"_i{st.lineno}"
                pre = [ast.Assign(targets=[ast.Name(id=t.id, ctx=ast.Store())],
                                  value=ast.Subscript(value=ast.Name(id=a.id, ctx=ast.Load()), slice=ast.Name(id=idx, ctx=ast.Load()), ctx=ast.Load()),
                                  lineno=st.lineno) for t, a in list(zip(st.target.elts, it.args))[1:]]
                st.target = ast.Tuple(elts=[ast.Name(id=idx, ctx=ast.Store()), st.target.elts[0]], ctx=ast.Store())
                st.iter = ast.Call(func=ast.Name(id="enumerate", ctx=ast.Load()), args=[it.args[0]], keywords=[])
                st.body = pre + st.body
                changed = True
            elif isinstance(it, ast.Call) and src(it.func) == "enumerate" and isinstance(st.target, ast.Tuple) and len(st.target.elts) == 2 \
                    and isinstance(st.target.elts[0], ast.Name):
                idx = st.target.elts[0].id
            if idx is None:
                continue
            # running counter
            last = st.body[-1] if st.body else None
            if isinstance(last, ast.AugAssign) and isinstance(last.op, ast.Add) and isinstance(last.target, ast.Name) and \
                    isinstance(last.value, ast.Constant) and last.value.value == 1 and cnt.get(last.target.id, 0) == 2:
                c = last.target.id
                init = [x for x in stmts[:k] if isinstance(x, ast.Assign) and len(x.targets) == 1 and isinstance(x.targets[0], ast.Name)
                        and x.targets[0].id == c and isinstance(x.value, ast.Constant) and x.value.value == 0 and not isinstance(x.value.value, bool)]
                used_after = any(isinstance(n, ast.Name) and n.id == c for x in stmts[k + 1:] for n in ast.walk(x))
                if len(init) == 1 and not used_after:
                    st.body = [_Sub({c: ast.Name(id=idx, ctx=ast.Load())}).visit(x) for x in st.body[:-1]]
                    changed = True
    new = clone(fn)
    visit(new.body)
    if not changed:
        return fn
    ast.fix_missing_locations(new)
    return new


def structured(fn):
    """copy of a function definition whose guard clauses (early returns) are written as if/else: the symbolic extraction reads a
    conditional with a value on each arm; loops over the points are written with `enumerate`"""
    fn = _loop_headers(fn)
    if not any(isinstance(n, ast.Return) for st in fn.body[:-1] for n in ast.walk(st)):
        return fn
    new = clone(fn)
    new.body = _guards_to_else(new.body)
    ast.fix_missing_locations(new)
    return new


# --------------------------------------------------------------------------
# soundness of the extraction: constructs the symbolic reader (symx.SymExec) does not model faithfully are named BEFORE it runs
# --------------------------------------------------------------------------
def _reversed_ranges(fn):
    """`range(a, b, -1)` reads as `range(b + 1, a + 1)` and `range(a, b, 1)` as `range(a, b)`: the reader sees a loop as an unordered set of
    iterations (point-wise stores, additive accumulations; everything else it declines), so the visiting order is immaterial to it"""
    hit = False
    new = clone(fn)
    for n in ast.walk(new):
        if isinstance(n, ast.For) and isinstance(n.iter, ast.Call) and src(n.iter.func) == "range" and len(n.iter.args) == 3 and not n.iter.keywords:
            a, b, s_ = n.iter.args
            if isinstance(s_, ast.Constant) and s_.value == 1:
                n.iter.args = [a, b]
                hit = True
            elif src(s_) == "-1":
                one = ast.Constant(value=1)
                n.iter.args = [ast.BinOp(left=b, op=ast.Add(), right=one), ast.BinOp(left=a, op=ast.Add(), right=one)]
                hit = True
    if not hit:
        return fn
    ast.fix_missing_locations(new)
    return new


def engine_blind_spot(fn):
    """first construct of a function that the symbolic reader would read wrongly (it would not stop at it): -> text, or None.
      * `range` with a step (the reader takes the first two arguments only);
      * for/else, while/else (the else part is skipped);
      * a negative literal index (read as a cell of its own, not as a position counted from the end);
      * a scalar that is plainly re-assigned inside a loop AND read there before it is written (carried from one iteration to the next
        without being an accumulator): the reader turns every loop-carried scalar into a sum;
      * a call of one of the six low-level routines whose result is used in a way the handlers do not give (handled by the handlers)."""
    for n in ast.walk(fn):
        if isinstance(n, (ast.For, ast.While)) and n.orelse:
            return f"loop with an else part at line {n.lineno}"
        if isinstance(n, ast.For) and isinstance(n.iter, ast.Call) and src(n.iter.func) in ("range", "prange") and (len(n.iter.args) > 2 or n.iter.keywords):
            return f"`{src(n.iter)[:40]}`: a range with a step"
        if isinstance(n, ast.Subscript):
            items = n.slice.elts if isinstance(n.slice, ast.Tuple) else [n.slice]
            for it in items:
                parts = [it.lower, it.upper] if isinstance(it, ast.Slice) else [it]
                for p_ in parts:
                    if isinstance(p_, ast.UnaryOp) and isinstance(p_.op, ast.USub) and isinstance(p_.operand, ast.Constant):
                        return f"`{src(n)[:40]}`: a position counted from the end of the array"
        if isinstance(n, ast.For):
            plain = set()
            for st in ast.walk(ast.Module(body=n.body, type_ignores=[])):
                if isinstance(st, ast.Assign) and len(st.targets) == 1 and isinstance(st.targets[0], ast.Name):
                    from ..core import increment_of
                    if increment_of(st) is None:
                        plain.add(st.targets[0].id)
            plain -= _name_stores(n.target)
            if plain:
                exp = upward_exposed(n.body, plain)
                if exp:
                    v = sorted(exp)[0]
                    return (f"`{v}` is re-assigned in the loop at line {n.lineno} and read there before it is written: a scalar carried from "
                            "one iteration to the next that is not an accumulator")
    return None


def vocabulary_problem(e, allowed, out_fn=None):
    """An extracted value may be compared with the specification only when it is written in the specification's own vocabulary: sums and
    products of coefficient reads and of values of the (uninterpreted) basis / span routines at the evaluation points.  Anything else in it
    (reads of the knots, scratch arrays, integer parts, conditionals, remainders, positions counted from the end ...) is something the
    comparison does not interpret: -> text naming it, or None"""
    e = sp.sympify(e)
    for a in sp.preorder_traversal(e):
        if isinstance(a, (sp.Add, sp.Mul, sp.Pow, sp.Sum, sp.Symbol, sp.Number, sp.Tuple)) or a.is_Number:
            continue
        if isinstance(a, sp.Basic) and a.is_Function or isinstance(a, sp.core.function.AppliedUndef):
            head = str(a.func)
            if out_fn is not None and head == out_fn:
                continue
            if head not in allowed:
                return f"`{str(a)[:60]}` is not a term of the specification (coefficient read, basis value, span)"
            if head in ("NB", "CB", "CB1"):
                j = a.args[-2] if head == "NB" else a.args[-1]
                if j.is_number and (not j.is_Integer or j < 0):
                    return f"`{str(a)[:60]}`: basis value number {j}"
            continue
        if isinstance(a, (sp.Rel, sp.logic.boolalg.BooleanFunction)) or a in (sp.true, sp.false):
            return f"a condition `{str(a)[:50]}` is part of the value"
        return f"`{str(a)[:60]}` ({type(a).__name__}) is not a term of the specification"
    return None


def unrolled_equal(got, want, subs):
    """both sides with the degrees set to small integers (`subs`) and every sum written out: polynomials in the uninterpreted reads, whose
    equality does not depend on the order or nesting of the loops.  -> True / False / None (a sum that cannot be written out)"""
    try:
        a, b = sp.sympify(got).subs(subs), sp.sympify(want).subs(subs)
        for _k in range(4):
            if not (a.has(sp.Sum) or b.has(sp.Sum)):
                break
            a, b = a.doit(), b.doit()
        if a.has(sp.Sum) or b.has(sp.Sum):
            return None
        return sp.expand(a - b) == 0
    except Exception:
        return None


def load_routine_formals(chk, mod=None):
    """the parameter lists the low-level routines really have (the module of the evaluator first, then the reference modules)"""
    ROUTINE_FORMALS_NOW.clear()
    ROUTINE_KINDS_NOW.clear()
    for r_ in ROUTINE_FORMALS:
        for m_ in ([mod] if mod is not None else []) + [chk.mod(U.NU), chk.mod(U.CU)]:
            if m_.has(r_):
                ROUTINE_FORMALS_NOW[r_] = [a.arg for a in m_.func(r_).args.args]
                kinds = ""
                for a in m_.func(r_).args.args:
                    t = src(a.annotation) if a.annotation is not None else ""
                    kinds += "a" if "[" in t else "i" if "int" in t else "f" if "float" in t else "?"
                ROUTINE_KINDS_NOW[r_] = kinds
                break


def check_evaluator(chk, rel, name, rule="E4-evaluator"):
    mod = chk.mod(rel)
    fn = structured(_reversed_ranges(mod.func(name)))
    chk.functions.add(f"{rel}:{name}")
    load_routine_formals(chk, mod)
    blind = engine_blind_spot(fn)
    helpers = {q: structured(_reversed_ranges(f)) for q, f in mod.functions().items() if q not in HANDLERS and q != name and "." not in q}
    if blind is None:
        called = {c.func.id for c in ast.walk(fn) if isinstance(c, ast.Call) and isinstance(c.func, ast.Name)}
        for q in sorted(called & set(helpers)):
            blind = engine_blind_spot(helpers[q])
            if blind:
                blind = f"{q}: {blind}"
                break
    fam = "cu" if "cu_" in name else "nu"
    two_d = "_2d_" in name
    kind = name.split("_")[-1]          # scalar | vector | cross
    combos = [(a, b) for a in (0, 1) for b in (0, 1)] if two_d else [(a, None) for a in (0, 1)]
    for d1, d2 in combos:
        over = {"der1": Integer(d1), "der2": Integer(d2)} if two_d else {"der": Integer(d1)}
        if fam == "cu":
            # BSplines selects the uniform-cubic family only for degree 3
            over.update({"deg1": Integer(3), "deg2": Integer(3)} if two_d else {"degree": Integer(3)})
        args = make_args(fn, overrides=over)
        label = f"{name}[der={d1}{',' + str(d2) if two_d else ''}]"
        if blind is not None:
            # ASSUMPTION of every verdict below: the symbolic reader models each construct of the routine.  It does not model this one
            # and would not stop at it either: nothing is concluded from the extraction.  One defect is decided without it: a work
            # array refreshed only under a test of a carried scalar and modified in place (`stale_work_array`, assumptions stated there).
            stale = None
            for f_ in [fn] + [helpers[q_] for q_ in sorted(helpers) if any(isinstance(c_, ast.Call) and isinstance(c_.func, ast.Name) and c_.func.id == q_
                                                                         for c_ in ast.walk(fn))]:
                stale = stale_work_array(f_, [n_ for n_ in ast.walk(f_) if isinstance(n_, ast.For)], [a_.arg for a_ in f_.args.args])
                if stale is not None:
                    break
            if stale is not None and (d1, d2) == combos[0]:
                # reported once for the routine (which combination of derivative orders reaches the statement is not worked out)
                chk.ob(rule, stale[0], f"{name}[work array]", False, stale[1], file=rel, func=name)
                chk.ob(rule, fn, label, None, f"outside the extractable fragment: {blind} (the symbolic reader does not model it)", file=rel, func=name)
            else:
                chk.ob(rule, fn, label, None, f"outside the extractable fragment: {blind} (the symbolic reader does not model it)", file=rel, func=name)
            continue
        ex = SymExec(fn, args, calls=dict(HANDLERS))
        # an evaluator that hands over to another routine of its module (merged entry points, a per-point helper) is read through it
        ex.module_funcs = helpers
        try:
            ex.run()
        except Undecided as e:
            chk.ob(rule, fn, label, None, f"outside the extractable fragment: {e}", file=rel, func=name)
            continue
        except (IndexError, KeyError, AttributeError, TypeError, ValueError) as e:
            chk.ob(rule, fn, label, None, f"outside the extractable fragment: {type(e).__name__}: {e}", file=rel, func=name)
            continue
        i, j, k, l = (Symbol(n, integer=True) for n in "ijkl")
        kref = None
        if fam == "cu":
            # the index convention is a matter between the span search and the evaluators of ONE module: the module of the evaluator when it
            # has a search of its own (the numba_/pythran_ copies analysed through this function), the reference module otherwise
            try:
                smod_ = mod if mod.has("cu_find_span") else chk.mod(U.CU)
                kref = uniform_span_analysis(smod_.func("cu_find_span"))["K"]
            except AnalysisError:
                kref = None
        shifted = None

        def expected(K):
            """(extracted value, specification) with the window of the uniform family starting at index - K"""
            if not two_d:
                x = args["x"] if kind == "scalar" else args["x"].fn(i)
                span, deg, B, win = basis_spec(fam, 0, args, x, d1)
                c = args["coeffs"].fn
                got_ = ex.ret if kind == "scalar" else ex.env["y"].read([i])
                return got_, sp.Sum(c(span - (win if K is None else K) + j) * B(j), (j, 0, deg))
            if kind == "scalar":
                x, y = args["x"], args["y"]
                got_ = ex.ret
            elif kind == "cross":
                x, y = args["X"].fn(i), args["Y"].fn(j)
                got_ = ex.env["z"].read([i, j])
            else:
                x, y = args["x"].fn(i), args["y"].fn(i)
                got_ = ex.env["z"].read([i])
            s1, n1, B1, w1 = basis_spec(fam, 1, args, x, d1)
            s2, n2, B2, w2 = basis_spec(fam, 2, args, y, d2)
            if K is not None:
                w1 = w2 = K
            c = args["coeffs"].fn
            a_, b_ = (Symbol("k", integer=True), Symbol("l", integer=True)) if kind == "cross" else \
                ((Symbol("i", integer=True), Symbol("j", integer=True)) if kind == "scalar" else (Symbol("j", integer=True), Symbol("k", integer=True)))
            inner = c(s1 - w1 + a_, s2 - w2) * B2(0) + sp.Sum(c(s1 - w1 + a_, s2 - w2 + b_) * B2(b_), (b_, 1, n2))
            return got_, sp.Sum(inner * B1(a_), (a_, 0, n1))
        try:
            if fam == "nu":
                got, want = expected(None)
                if got is None:
                    raise Undecided("the routine returns nothing")
                ok = sum_equal(got, want)
            else:
                # the window of the uniform family starts at (index returned by the span search) - K: K is the convention of cu_find_span
                # (cell + K); an evaluator that reads the window of another convention disagrees with the search
                first_k = 3 if kref is None else kref
                got, want = expected(first_k)
                if got is None:
                    raise Undecided("the routine returns nothing")
                ok = sum_equal(got, want)
                if not ok:
                    for K2 in [k_ for k_ in (3, 0, 2, 1, 4) if k_ != first_k]:
                        g2, w2_ = expected(K2)
                        if sum_equal(g2, w2_):
                            shifted = K2
                            break
        except (Undecided, KeyError, AttributeError, TypeError) as e:
            chk.ob(rule, fn, label, None, f"comparison not decidable: {type(e).__name__}: {e} (parameter or output renamed?)", file=rel, func=name)
            continue
        # ---- every VIOLATED verdict below ASSUMES, beyond a faithful extraction:
        #  (a) the j-th entry the uniform basis routines fill is the cardinal piece of the function `cell + j` (value) / its x-derivative: a
        #      contract between cu_basis_funs(_1st_der) and the evaluators (order of the table, which side divides by dx).  Established by
        #      `cu_basis_contract` from the polynomials of the routines themselves; otherwise UNDECIDED.
        #  (b) the extracted value is written in the vocabulary of the specification (`vocabulary_problem`); otherwise UNDECIDED.
        #  (c) the two sides differ as polynomials in the uninterpreted reads once the degrees are set to small integers and all sums are
        #      written out (`unrolled_equal`): a difference that is only one of loop order / nesting of the sums is not a difference.
        cu_ok = True if fam == "nu" else cu_basis_contract(chk, mod)
        if shifted is not None:
            if kref is None or cu_ok is not True:
                chk.ob(rule, fn, label, None, f"the evaluator reads the four coefficients from (index returned by the span search) - {shifted} "
                       "on, but " + ("the convention of cu_find_span (cell + K) was not established" if kref is None else
                                     "cu_basis_funs / cu_basis_funs_1st_der do not fill the cardinal pieces in the order cell .. cell+3") +
                       ": cannot compare the two", file=rel, func=name)
            else:
                chk.ob(rule, fn, label, False,
                       f"cu_find_span returns cell + {kref} (cell = int((x-xmin)/dx), the four non-vanishing functions are cell .. cell+3) but this "
                       f"evaluator reads the coefficients from (returned index) - {shifted} on, i.e. the functions cell{kref - shifted:+d} .. "
                       f"cell{kref - shifted + 3:+d}: search and evaluator disagree on the index convention, the value is a combination of the "
                       "wrong coefficients", file=rel, func=name, facts={"code": str(got)[:400], "spec": str(want)[:400]})
            continue
        extra, why_not = "", None
        if not ok:
            out_name = "y" if not two_d else "z"
            allowed = {"NB", "CB", "CB1", "NSPAN", "CSPAN", "COFF", "toint", "coeffs"} | \
                {p_ for p_ in ("x", "y", "X", "Y") if isinstance(args.get(p_), Arr) and p_ != out_name}
            if fam == "cu":
                allowed |= {p_ for p_ in ("knots", "kts1", "kts2") if isinstance(args.get(p_), Arr)}
            if two_d:
                subs = {args["deg1"]: 3, args["deg2"]: 2} if fam == "nu" else {}
            else:
                subs = {args["degree"]: 3} if fam == "nu" else {}
            subs = {k_: v_ for k_, v_ in subs.items() if isinstance(k_, sp.Symbol)}
            before = None
            if kind != "scalar" and isinstance(args.get(out_name), Arr):
                # the output cell as it was before the call (uninterpreted read of the output array)
                before = args[out_name].fn(*([i] if (not two_d or kind == "vector") else [i, j]))
            if cu_ok is not True:
                why_not = ("cu_basis_funs / cu_basis_funs_1st_der were not established to fill the cardinal pieces (resp. their x-derivatives) in "
                           "the order cell .. cell+3: what the evaluator must do with their output is not known")
            elif before is not None and sp.sympify(got).has(before):
                try:
                    plus = sum_equal(sp.sympify(got) - before, want)
                except Exception:
                    plus = False
                site = user_buffer_site(chk, name, out_name) if plus else None
                if plus and site:
                    # ASSUMPTION checked: an entry point hands the caller's own array to this routine without clearing it (`site`)
                    extra = (f": the routine accumulates onto `{before}` without resetting it first - the result is the previous content of "
                             f"the output array plus the spline value (wrong for every output array that is not zero-filled, e.g. a reused "
                             f"work array; {site})")
                elif plus:
                    why_not = (f"the routine accumulates onto `{before}` without resetting it first, and no entry point was found that hands it "
                               "an array which is not cleared: whether every caller clears the output is not followed")
                else:
                    why_not = f"the value depends on the previous content `{before}` of the output array in a way that is not interpreted"
            else:
                why_not = vocabulary_problem(got, allowed)
                if why_not is None:
                    same = unrolled_equal(got, want, subs)
                    if same is None:
                        why_not = "the sums of the extracted value cannot be written out for fixed degrees: the difference is not confirmed"
                    elif same:
                        why_not = (f"the symbolic forms differ but agree once the degrees are fixed ({ {str(k_): v_ for k_, v_ in subs.items()} or 'cubic'}) "
                                   "and the sums written out (loop order / nesting): equality for every degree is not established")
        if not ok and why_not is not None:
            chk.ob(rule, fn, label, None, f"comparison not decidable: {why_not}; extracted {str(got)[:200]}", file=rel, func=name,
                   facts={"code": str(got)[:400], "spec": str(want)[:400]})
            continue
        chk.ob(rule, fn, label, ok,
               "value = sum over the degree+1 (x degree+1) coefficients of the non-vanishing basis functions (window [span-degree, span]; "
               "uniform family: the window that starts at the cell index, in the index convention of cu_find_span) of coefficient x basis "
               "function, with the " + ("derivative" if (d1 or d2) else "value") + " routine and the knots/degree/point/span of the "
               "same dimension" if ok else (extra[2:] + "; " if extra else "") + f"extracted contraction {str(got)[:260]} differs from {str(want)[:260]}",
               file=rel, func=name, facts={"code": str(got)[:400], "spec": str(want)[:400]})


def user_buffer_site(chk, kernel, out_formal):
    """an entry point of splines.py that hands an array of ITS caller to the output parameter of `kernel` without clearing it first:
    -> text naming it, or None (no such site found: the call sites may go through tables, other modules call the kernels too)"""
    try:
        smod = chk.mod(U.SPLINES)
        kmods = [chk.mod(U.NU), chk.mod(U.CU)]
    except AnalysisError:
        return None
    sig = None
    for m_ in kmods:
        if m_.has(kernel):
            sig = [a.arg for a in m_.func(kernel).args.args]
    if sig is None or out_formal not in sig:
        return None
    for q, f in smod.functions().items():
        params = {a.arg for a in f.args.args[1:]}
        for c in ast.walk(f):
            if not (isinstance(c, ast.Call) and isinstance(c.func, ast.Name) and c.func.id == kernel):
                continue
            b = agree.bind_call(c, sig)
            a = b.get(out_formal) if b else None
            if not (isinstance(a, ast.Name) and a.id in params):
                continue
            touched = [n for n in ast.walk(f) if (isinstance(n, ast.Name) and n.id == a.id and isinstance(n.ctx, ast.Store)) or
                       (isinstance(n, ast.Subscript) and isinstance(n.ctx, ast.Store) and src(n.value) == a.id) or
                       (isinstance(n, ast.Call) and isinstance(n.func, ast.Attribute) and src(n.func.value) == a.id)]
            if not touched:
                return f"`{q}` passes its caller's array `{a.id}` as it is"
    return None


_CU_CONTRACT = {}


def cu_basis_contract(chk, own=None):
    """True when cu_basis_funs fills the four cardinal cubic pieces in the order cell .. cell+3 as polynomials of the offset and
    cu_basis_funs_1st_der their derivatives with respect to x (divided by dx): the contract the uniform evaluators are compared against.
    None when that was not established (another order, another scaling, not extractable)"""
    try:
        # the basis routines of the evaluator's own module when it has them (numba_/pythran_ copies), the reference module otherwise
        mod = own if own is not None and own.has("cu_basis_funs") and own.has("cu_basis_funs_1st_der") else chk.mod(U.CU)
        key = (id(mod), id(mod.func("cu_basis_funs")), id(mod.func("cu_basis_funs_1st_der")))
    except AnalysisError:
        return None
    if key not in _CU_CONTRACT:
        vals, ders = _cu_polynomials(mod)
        o, dx = sp.symbols("offset dx", real=True)
        want = _cardinal_pieces(o)
        okc = None
        if vals is not None and ders is not None:
            okc = all(sp.expand(vals[k] - want[k]) == 0 for k in range(4)) and \
                all(sp.expand(ders[k] - sp.diff(want[k], o) / dx) == 0 for k in range(4))
        _CU_CONTRACT[key] = True if okc else None
    return _CU_CONTRACT[key]


def _cardinal_pieces(o):
    return [(1 - o) ** 3 / 6, (3 * o ** 3 - 6 * o ** 2 + 4) / 6, (-3 * o ** 3 + 3 * o ** 2 + 3 * o + 1) / 6, o ** 3 / 6]


def _cu_polynomials(mod):
    """(values, derivatives) the two uniform basis routines store, as expressions of `offset` (and `dx`); None where not extractable"""
    o, dx = sp.symbols("offset dx", real=True)
    out = []
    for q in ("cu_basis_funs", "cu_basis_funs_1st_der"):
        try:
            fn = mod.func(q)
            if len(fn.args.args) != len(ROUTINE_FORMALS[q]) or not same_parameter_roles(q) or engine_blind_spot(fn):
                raise Undecided("parameters")
            names = [a.arg for a in fn.args.args]          # roles by position: (span, offset, [dx,] output)
            over = {names[1]: o} if q == "cu_basis_funs" else {names[1]: o, names[2]: dx}
            arr = names[-1]
            ex = SymExec(fn, make_args(fn, overrides=over), calls={})
            ex.run()
            got = [sp.sympify(ex.env[arr].read([Integer(k)])) for k in range(4)]
            if any(v.free_symbols - {o, dx} for v in got):
                raise Undecided("free symbols")
            out.append(got)
        except Exception:
            out.append(None)
    return out[0], out[1]


# --------------------------------------------------------------------------
# the value at point i is a function of point i only: no scalar state is carried from one point of an array to the next
# --------------------------------------------------------------------------
def _name_stores(node):
    """names bound by plain (scalar) stores below a node: assignment / augmented assignment / loop targets"""
    out = set()
    for n in ast.walk(node):
        if isinstance(n, ast.Name) and isinstance(n.ctx, ast.Store):
            out.add(n.id)
    return out


def _loads(e):
    return {n.id for n in ast.walk(e) if isinstance(n, ast.Name) and isinstance(n.ctx, ast.Load)}


def upward_exposed(stmts, candidates):
    """names of `candidates` that some path through the statement list reads before it has written them (reaching definition from
    before the list, i.e. for a loop body: from the previous iteration) -> {name: first statement that reads it}"""
    exposed = {}

    def use(e, defined, st):
        for n in _loads(e):
            if n in candidates and n not in defined and n not in exposed:
                exposed[n] = st

    def block(body, defined):
        for st in body:
            if isinstance(st, ast.Assign):
                use(st.value, defined, st)
                for t in st.targets:
                    for x in ast.walk(t):
                        if isinstance(x, ast.Subscript):
                            use(x.slice, defined, st)
                            if isinstance(x.value, ast.Name):
                                use(x.value, defined, st)
                for t in st.targets:
                    for x in ([t] if isinstance(t, ast.Name) else t.elts if isinstance(t, ast.Tuple) else []):
                        if isinstance(x, ast.Name):
                            defined.add(x.id)
            elif isinstance(st, ast.AugAssign):
                use(st.value, defined, st)
                use(st.target, defined, st) if not isinstance(st.target, ast.Name) else use(ast.Name(id=st.target.id, ctx=ast.Load()), defined, st)
                if isinstance(st.target, ast.Name):
                    defined.add(st.target.id)
            elif isinstance(st, ast.If):
                use(st.test, defined, st)
                d1, d2 = set(defined), set(defined)
                block(st.body, d1)
                block(st.orelse, d2)
                defined |= (d1 & d2)
            elif isinstance(st, ast.For):
                use(st.iter, defined, st)
                d1 = set(defined) | _name_stores(st.target)
                block(st.body, d1)          # the body may not run: nothing it defines is certain afterwards
                block(st.orelse, set(defined))
            elif isinstance(st, ast.While):
                use(st.test, defined, st)
                block(st.body, set(defined))
            elif isinstance(st, (ast.Return, ast.Expr, ast.Assert)):
                for c in ast.iter_child_nodes(st):
                    use(c, defined, st)
            else:
                for c in ast.iter_child_nodes(st):
                    if isinstance(c, ast.expr):
                        use(c, defined, st)
    block(stmts, set())
    return exposed


def _only_increments(fn_body, start, mod=None, depth=0):
    """Is the value that the names `start` hold at the end of the statement list their value at its beginning plus a non-negative amount
    (or minus: direction -1)?  Followed through plain copies `a = b`; every other definition must be `a += c` / `a = a + c` with a positive
    literal c, or a call of a module-level function that returns its own parameter after such updates only.
    -> (+1 | -1, chain of names) or None"""
    S, todo = set(start), list(start)
    sign = None
    whole = ast.Module(body=list(fn_body), type_ignores=[])
    while todo:
        v = todo.pop()
        # ASSUMPTION of the verdict built on this chain: EVERY definition of the name is one of the forms read below.  A binding by any other
        # construct (walrus, with ... as, chained or tuple targets, del, a nested function declaring it nonlocal) is a definition not seen.
        seen_defs = sum(1 for st in ast.walk(whole) if (isinstance(st, ast.Assign) and len(st.targets) == 1 and isinstance(st.targets[0], ast.Name)
                                                        and st.targets[0].id == v) or
                        (isinstance(st, ast.AugAssign) and isinstance(st.target, ast.Name) and st.target.id == v))
        all_defs = sum(1 for n in ast.walk(whole) if isinstance(n, ast.Name) and n.id == v and isinstance(n.ctx, (ast.Store, ast.Del)))
        if seen_defs != all_defs or any(isinstance(n, (ast.Nonlocal, ast.Global)) for n in ast.walk(whole)):
            return None
        for st in ast.walk(whole):
            tgt, val = None, None
            if isinstance(st, ast.Assign) and len(st.targets) == 1 and isinstance(st.targets[0], ast.Name) and st.targets[0].id == v:
                tgt, val = st.targets[0], st.value
            elif isinstance(st, ast.AugAssign) and isinstance(st.target, ast.Name) and st.target.id == v:
                if not (isinstance(st.op, (ast.Add, ast.Sub)) and isinstance(st.value, ast.Constant) and isinstance(st.value.value, int)
                        and st.value.value > 0):
                    return None
                s_ = 1 if isinstance(st.op, ast.Add) else -1
                if sign not in (None, s_):
                    return None
                sign = s_
                continue
            elif isinstance(st, (ast.Assign, ast.For)) and v in _name_stores(st.targets[0] if isinstance(st, ast.Assign) and st.targets else
                                                                               getattr(st, "target", ast.Pass())):
                return None             # bound by unpacking / as a loop target
            else:
                continue
            if isinstance(val, ast.Name):
                if val.id not in S:
                    S.add(val.id)
                    todo.append(val.id)
                continue
            if isinstance(val, ast.BinOp) and isinstance(val.op, (ast.Add, ast.Sub)) and isinstance(val.left, ast.Name) and val.left.id in S \
                    and isinstance(val.right, ast.Constant) and isinstance(val.right.value, int) and val.right.value > 0:
                s_ = 1 if isinstance(val.op, ast.Add) else -1
                if sign not in (None, s_):
                    return None
                sign = s_
                continue
            if isinstance(val, ast.Call) and isinstance(val.func, ast.Name) and mod is not None and depth < 2:
                try:
                    callee = mod.func(val.func.id)
                except AnalysisError:
                    return None
                formals = [a.arg for a in callee.args.args]
                carried = [f_ for f_, a in zip(formals, val.args) if isinstance(a, ast.Name) and a.id in S]
                rets = [r.value for r in ast.walk(callee) if isinstance(r, ast.Return)]
                if len(carried) != 1 or not rets or not all(isinstance(r, ast.Name) for r in rets):
                    return None
                inner = _only_increments(callee.body, {r.id for r in rets}, mod, depth + 1)
                if inner is None or carried[0] not in inner[1] or _stores(callee).get(carried[0], 0) and carried[0] not in inner[1]:
                    return None
                if sign not in (None, inner[0]):
                    return None
                sign = inner[0]
                continue
            return None
    return (sign, S) if sign is not None else None


def pointwise(chk, rel, name):
    """E4-pointwise: in an evaluator over an array of points, the scalars computed for one point do not depend on the points before it"""
    mod = chk.mod(rel)
    fn = mod.func(name)
    params = [a.arg for a in fn.args.args]
    pts = set()
    for p_ in params:
        if p_ in ("knots", "kts1", "degree", "deg1"):
            break
        pts.add(p_)

    def point_loop(lp):
        it = lp.iter
        if isinstance(it, ast.Call) and src(it.func) == "enumerate" and it.args and isinstance(it.args[0], ast.Name) and it.args[0].id in pts:
            return True
        if isinstance(it, ast.Name) and it.id in pts:
            return True
        if isinstance(it, ast.Call) and src(it.func) in ("range", "prange") and any(
                (isinstance(x, ast.Call) and src(x.func) == "len" and x.args and src(x.args[0]) in pts) or
                (isinstance(x, ast.Subscript) and isinstance(x.value, ast.Attribute) and x.value.attr == "shape" and src(x.value.value) in pts)
                for a in it.args for x in ast.walk(a)):
            return True
        if isinstance(it, ast.Call) and src(it.func) == "zip" and any(isinstance(a, ast.Name) and a.id in pts for a in it.args):
            return True
        return False
    loops = [n for n in ast.walk(fn) if isinstance(n, ast.For) and point_loop(n)]
    if not loops:
        return
    verdict, text, node = True, "", fn
    for lp in loops:
        cands = _name_stores(ast.Module(body=lp.body, type_ignores=[])) - _name_stores(lp.target)
        exp = upward_exposed(lp.body, cands)
        for v, st in exp.items():
            # is the carried value used for anything but its own update?
            chain = _only_increments(lp.body, {v}, mod)
            names = chain[1] if chain else {v}
            used = [s2 for s2 in ast.walk(ast.Module(body=lp.body, type_ignores=[])) if isinstance(s2, ast.stmt) and
                    not isinstance(s2, (ast.For, ast.While, ast.If)) and names & _loads(s2) and
                    not ((isinstance(s2, ast.Assign) and len(s2.targets) == 1 and isinstance(s2.targets[0], ast.Name) and s2.targets[0].id in names)
                         or (isinstance(s2, ast.AugAssign) and isinstance(s2.target, ast.Name) and s2.target.id in names))]
            if not used:
                continue

            def span_role(s2):
                """is a carried name handed to a basis / span routine, or does it index the coefficients or the knots?"""
                for x in ast.walk(s2):
                    if isinstance(x, ast.Call) and isinstance(x.func, ast.Name) and ("basis_funs" in x.func.id or "find_span" in x.func.id) and \
                            any(names & _loads(a) for a in x.args):
                        return True
                    if isinstance(x, ast.Subscript) and isinstance(x.value, ast.Name) and (x.value.id in ("coeffs", "knots", "kts1", "kts2", "theCoeffs")) \
                            and names & _loads(x.slice):
                        return True
                return False

            def output_position(s2):
                """the carried name only says where the result of this point is stored (a running output index)"""
                subs = [x for x in ast.walk(s2) if isinstance(x, ast.Subscript) and names & _loads(x.slice)]
                outs = {"y", "z"} | {a.arg for a in fn.args.args if a.arg in ("y", "z", "out", "result")}
                return bool(subs) and all(isinstance(x.value, ast.Name) and x.value.id in outs and x.value.id not in pts for x in subs) and \
                    not (names & (_loads(s2) - {n_ for x in subs for n_ in _loads(x.slice)}))
            in_span = [s2 for s2 in used if span_role(s2)]
            if not in_span and all(output_position(s2) for s2 in used) and chain is not None and chain[0] > 0:
                continue                # a counter of the points done: the same as the index of the iteration
            if not in_span:
                chain = None
            else:
                used = in_span
            if chain is not None and verdict is not False:
                how = "increased" if chain[0] > 0 else "decreased"
                verdict, node = False, st
                text = (f"`{v}` is carried from one point of `{src(lp.iter)[:40]}` to the next (`{src(st)[:60]}` reads the value the previous "
                        f"iteration left) and is only ever {how} in the loop ({', '.join(sorted(names))}): the value used in "
                        f"`{src(used[0])[:70]}` for point i is at {'least' if chain[0] > 0 else 'most'} the one of point i-1, so for a point "
                        f"lying {'left' if chain[0] > 0 else 'right'} of the previous one (points not sorted: descending grid, feet of "
                        "characteristics) the span of another cell is kept and the polynomial piece of that cell is evaluated - the "
                        "result for point i depends on the points before it")
            elif verdict is True:
                verdict, node = None, st
                text = (f"`{v}` is carried from one point of `{src(lp.iter)[:40]}` to the next (`{src(st)[:60]}` reads the value the "
                        "previous iteration left): whether the value computed for point i is independent of the points before it is not followed")
    if verdict is not False:
        stale = stale_work_array(fn, loops, params)
        if stale is not None:
            verdict, node, text = False, stale[0], stale[1]
    chk.ob("E4-pointwise", node, f"{name}: the scalars of one point do not depend on the previous points", verdict,
           "every scalar used for point i (span, offset, accumulators) is computed within the iteration of point i" if verdict else text,
           file=rel, func=name)


def stale_work_array(fn, loops, params):
    """A local work array that the iteration of a point refreshes only under a test of a scalar carried from the previous point, and that
    the iteration also modifies in place.  ASSUMPTIONS (all checked here): the array is a local of the routine; its only stores outside the
    guarded refresh are in-place modifications (their value reads the array itself, or they are augmented assignments); the guard reads a
    name that reaches it from the previous iteration.  Then on the iterations where the refresh is skipped the array holds what the
    previous point's in-place modifications left, so the value computed depends on the previous point.  -> (node, text) or None"""
    for lp in loops:
        cands = _name_stores(ast.Module(body=lp.body, type_ignores=[])) - _name_stores(lp.target)
        carried = set(upward_exposed(lp.body, cands))
        if not carried:
            continue
        for iff, guards in walk_guarded(lp.body):
            if not isinstance(iff, ast.If) or not (carried & _loads(iff.test)) or iff.orelse:
                continue
            inside = {id(n) for n in ast.walk(iff)}
            for st in ast.walk(iff):
                if not (isinstance(st, ast.Assign) and len(st.targets) == 1 and isinstance(st.targets[0], ast.Subscript) and
                        isinstance(st.targets[0].value, ast.Name)):
                    continue
                A_ = st.targets[0].value.id
                if A_ in params or A_ in _loads(st.value):
                    continue
                others = [x for x in ast.walk(ast.Module(body=lp.body, type_ignores=[])) if id(x) not in inside and
                          isinstance(x, (ast.Assign, ast.AugAssign)) and
                          any(isinstance(t, ast.Subscript) and isinstance(t.value, ast.Name) and t.value.id == A_
                              for t in (x.targets if isinstance(x, ast.Assign) else [x.target]))]
                rebinds = [x for x in ast.walk(ast.Module(body=lp.body, type_ignores=[])) if isinstance(x, ast.Name) and x.id == A_ and
                           isinstance(x.ctx, ast.Store)]
                inplace = [x for x in others if isinstance(x, ast.AugAssign) or A_ in _loads(x.value)]
                if not others or rebinds or len(inplace) != len(others):
                    continue
                return iff, (f"the work array `{A_}` is refreshed (`{src(st)[:60]}`) only when `{src(iff.test)[:50]}` holds, a test of "
                             f"`{sorted(carried & _loads(iff.test))[0]}`, which is carried from the previous point of `{src(lp.iter)[:30]}`; the iteration "
                             f"also modifies `{A_}` in place (`{src(inplace[0])[:60]}`), so for a point on which the refresh is skipped the block "
                             "read is what the previous point left, not the coefficients: the result for point i depends on the points before it")
    return None


def sum_equal(a, b):
    """equality of (nested) sums: compare after renaming bound variables positionally"""
    a, b = sp.sympify(a), sp.sympify(b)
    return alg_equal(_canon(a), _canon(b))


def _canon(e, depth=0):
    if isinstance(e, sp.Sum) and len(e.limits) == 1 and e.limits[0][1] == 0:
        # peel the first term so that every sum starts at 1 (degree >= 1): sum_{0..n} f = f(0) + sum_{1..n} f
        v, lo, hi = e.limits[0]
        return _canon(e.function.subs(v, 0), depth) + _canon(sp.Sum(e.function, (v, 1, hi)), depth)
    if isinstance(e, sp.Sum):
        f = e.function
        lims = e.limits
        for n, (v, lo, hi) in enumerate(lims):
            nv = Symbol(f"_b{depth}_{n}", integer=True)
            f = f.subs(v, nv)
            lims = tuple((nv if vv == v else vv, l, h) for vv, l, h in lims)
        return sp.Sum(_canon(f, depth + 1), *lims)
    if not getattr(e, "args", None):
        return e
    if e.has(sp.Sum):
        return e.func(*[_canon(x, depth) for x in e.args])
    return e


# --------------------------------------------------------------------------
# the uniform span search: which index it returns (the convention its consumers must share) and whether it stays in the last cell
# --------------------------------------------------------------------------
_SPAN_CACHE = {}


def uniform_span_analysis(fs):
    """cu_find_span read as a piecewise function of its arguments (symbolic forward substitution, one leaf per truth assignment of its
    guards).  With p = (x - xmin)/dx and c = int(p):
      * an interior leaf returns (c + K, p - c) for an integer constant K (K = 3: knot span; K = 0: first non-vanishing function);
      * an end leaf returns (ncells - 1 + K, 1): the last cell, evaluated at its right edge;
      * every leaf has the same K, and an interior leaf is reached only when its guards exclude c == ncells BY A TEST ON c ITSELF: dx is a
        rounded cell width, so no comparison of x with xmax bounds int((x - xmin)/dx) below ncells.
    -> {"ok": True | False | None, "why": text, "K": int | None}"""
    key = id(fs)
    if key in _SPAN_CACHE:
        return _SPAN_CACHE[key]
    from ..symx import collect_ites, bool_atoms, consistent, resolve_ite, canon_rel
    import itertools
    out = {"ok": None, "why": "span search not extractable", "K": None}
    _SPAN_CACHE[key] = out
    params = [a.arg for a in fs.args.args]
    if len(params) != 5:
        out["why"] = f"span search has the parameters {params}: not (xmin, xmax, dx, x, ncells)"
        return out
    if any(p_ != w_ and p_ in ROUTINE_FORMALS["cu_find_span"] for p_, w_ in zip(params, ROUTINE_FORMALS["cu_find_span"])):
        # the roles (first break point, last break point, cell width, point, number of cells) are known by position: a parameter list that
        # carries a reference name at another position is another contract
        out["why"] = f"span search has the parameters {params}: not (xmin, xmax, dx, x, ncells)"
        return out
    blind = engine_blind_spot(fs)
    if blind:
        out["why"] = f"span search not extractable: {blind}"
        return out
    args = make_args(fs)
    xmin_s, xmax_s, dx_s, xs, nc_s = (args[p_] for p_ in params)
    try:
        exs = SymExec(structured(fs), dict(args), calls={})
        exs.run()
        ret = exs.ret
        if isinstance(ret, tuple):
            ret = sp.Tuple(*ret)
        if ret is None:
            raise Undecided("no value returned")
        ites, atoms = [], set()
        collect_ites(ret, ites)
        for i_ in ites:
            bool_atoms(i_.args[0], atoms)
        atoms = sorted(atoms, key=str)
        if len(atoms) > 6:
            raise Undecided(f"{len(atoms)} atomic conditions")
        pos = (xs - xmin_s) / dx_s
        leaves = []
        for bits in itertools.product([False, True], repeat=len(atoms)):
            val = dict(zip(atoms, bits))
            if not consistent(val):
                continue
            leaf = resolve_ite(ret, val)
            if not isinstance(leaf, (tuple, sp.Tuple)) or len(leaf) != 2:
                raise Undecided(f"a path returns `{leaf}`, not a pair (index, offset)")
            leaves.append((val, sp.sympify(leaf[0]), sp.sympify(leaf[1])))
    except (Undecided, KeyError, AttributeError, TypeError) as e:
        out["why"] = f"span search not extractable: {e}"
        return out
    toints = {a_ for _v, s_, o_ in leaves for a_ in list(s_.atoms(Function)) + list(o_.atoms(Function)) if str(a_.func) == "toint"}
    for (k_, e_) in atoms:
        toints |= {a_ for a_ in e_.atoms(Function) if str(a_.func) == "toint"}
    cells = [t_ for t_ in toints if sp.simplify(t_.args[0] - pos) == 0]
    T = Symbol("cell", integer=True)
    if cells:
        # one name for the integer part of (x - xmin)/dx, whatever its spelling (comparisons are kept in expanded form)
        rep = {t_: T for t_ in cells}
        leaves = [({(k_, sp.expand(e_.xreplace(rep))): v for (k_, e_), v in val.items()}, s_.xreplace(rep), o_.xreplace(rep))
                  for val, s_, o_ in leaves]
        toints = {t_ for t_ in toints if t_ not in rep}
    if not cells or toints:
        out["why"] = (f"the cell index is not int((x - xmin)/dx) (integer parts found: {sorted(map(str, toints))})" if toints else
                      "no integer part of (x - xmin)/dx is taken")
        return out
    pos_t = pos                     # the offset of an interior leaf is p - cell

    def about_cell(val):
        """what the guards of a leaf say about t = cell - ncells: -> (lower bound or None, upper bound or None, {excluded values}, value or None)"""
        lo = hi = eq = None
        ne = set()
        for (k_, e_), v in val.items():
            d = sp.expand(e_)
            for sign in (1, -1):
                c = sp.expand(d - sign * (T - nc_s))
                if not c.is_Integer:
                    continue
                c = int(c)
                # the atom reads  sign*t + c <k> 0
                if k_ == "eq":
                    val_t = -c * sign
                    if v:
                        eq = val_t
                    else:
                        ne.add(val_t)
                else:
                    strict = k_ == "lt"
                    if sign == 1:       # t + c < 0  /  t + c <= 0
                        if v:
                            ub = -c - 1 if strict else -c
                            hi = ub if hi is None else min(hi, ub)
                        else:
                            lb = -c if strict else -c + 1
                            lo = lb if lo is None else max(lo, lb)
                    else:               # -t + c < 0  /  -t + c <= 0
                        if v:
                            lb = c + 1 if strict else c
                            lo = lb if lo is None else max(lo, lb)
                        else:
                            ub = c if strict else c - 1
                            hi = ub if hi is None else min(hi, ub)
                break
        return lo, hi, ne, eq

    def about_x(val):
        """guards that compare the point with the end of the domain"""
        return [(k_, e_, v) for (k_, e_), v in val.items() if e_.has(xs) and e_.has(xmax_s) and not e_.has(T)]
    Ks, problems, undecided = set(), [], []
    for val, s_, o_ in leaves:
        lo, hi, ne, eq = about_cell(val)
        if eq is not None:
            s_, o_ = s_.subs(T, nc_s + eq), o_.subs(T, nc_s + eq)
        interior = sp.simplify(o_ - (pos_t - T)) == 0 and (sp.expand(s_ - T)).is_Integer
        at_end = sp.simplify(o_ - 1) == 0 and (sp.expand(s_ - nc_s)).is_Integer
        if interior:
            k_here = int(sp.expand(s_ - T))
            Ks.add(k_here)
            if (hi is not None and hi <= -1) or 0 in ne:
                continue                # cell < ncells, or cell != ncells (cell <= ncells on the closed domain)
            if lo is not None and lo >= 0:
                problems.append(f"when int((x-xmin)/dx) >= ncells the index int((x-xmin)/dx)+{k_here} is returned: the four functions "
                                "it designates run past the last basis function")
                continue
            xg = about_x(val)
            if xg:
                problems.append(
                    "the last cell is selected by a comparison of x with xmax and every other point gets "
                    f"int((x-xmin)/dx)+{k_here}: dx is a rounded cell width, so for points just below xmax "
                    "(x-xmin)/dx can reach ncells although x < xmax; the index then designates the functions [ncells, ncells+3], one "
                    "past the ncells+3 coefficients (IndexError in pure Python, out-of-bounds read once compiled); the test must be on "
                    "the computed cell index itself")
            elif not val:
                problems.append(f"int((x-xmin)/dx)+{k_here} is returned for every x: at x = xmax the cell index is ncells and the four "
                                "functions designated run past the last basis function (the right end point of the closed domain is "
                                "not evaluated in the last cell)")
            else:
                undecided.append(f"the guards {[str(e_) for (_k, e_) in val]} of the leaf ({s_}, {o_}) do not bound the cell index")
        elif at_end:
            k_here = int(sp.expand(s_ - nc_s)) + 1
            Ks.add(k_here)
        else:
            undecided.append(f"a path returns ({s_}, {o_}): neither (cell + K, p - cell) nor (ncells - 1 + K, 1)")
    if not any(sp.simplify(o_ - 1) == 0 for _v, _s, o_ in leaves) and not problems and not undecided:
        undecided.append("no path evaluates the right end point in the last cell")
    if len(Ks) == 1:
        out["K"] = next(iter(Ks))
    if problems:
        out["ok"], out["why"] = False, "; ".join(problems)
    elif len(Ks) > 1:
        out["ok"] = False
        out["why"] = (f"the paths of the span search return cell+K for different K ({sorted(Ks)}, the end point counted as cell ncells-1): "
                      "the window of coefficients its callers read is shifted on one of the paths")
    elif undecided or not Ks:
        out["why"] = "; ".join(undecided) or "no leaf recognised"
    else:
        out["ok"], out["why"] = True, ""
    return out


def _table_relation(got, want):
    """how a table of four expressions relates to the expected one: 'same' | ('perm', order) | ('scaled', factor) | 'other'.
    A permuted or uniformly rescaled table is another CONVENTION between the routine that fills it and the routines that read it (order of
    the entries, which side applies a factor), not a wrong table: it is decided only together with the readers."""
    if all(sp.expand(g - w) == 0 for g, w in zip(got, want)):
        return "same"
    import itertools
    for perm in itertools.permutations(range(len(want))):
        if all(sp.expand(got[k] - want[perm[k]]) == 0 for k in range(len(want))):
            return ("perm", list(perm))
    for perm in itertools.permutations(range(len(want))):
        ratios = []
        for k in range(len(want)):
            w = want[perm[k]]
            if sp.expand(w) == 0:
                ratios = None
                break
            ratios.append(sp.simplify(got[k] / w))
        if ratios and all(sp.simplify(r - ratios[0]) == 0 for r in ratios) and ratios[0] != 0 and not (ratios[0].free_symbols & {sp.Symbol("offset", real=True)}):
            return ("scaled", ratios[0])
    return "other"


def span_results_used_as_returned(chk):
    """ASSUMPTION of the verdicts on cu_find_span: what it returns is what its callers use - no caller clamps, shifts or replaces the index
    or the offset afterwards (the treatment of the last point may live on either side of the call).  Checked over the evaluators, the
    collocation matrix and splines.py: every binding of a name that receives a result of cu_find_span is such a call.  -> (bool, text)"""
    for rel in (U.CU, U.INTERP, U.SPLINES):
        try:
            mod = chk.mod(rel)
        except AnalysisError:
            continue
        for q, f in mod.functions().items():
            if q == "cu_find_span":
                continue
            names = set()
            for st in ast.walk(f):
                if isinstance(st, ast.Call) and src(st.func).split(".")[-1] == "cu_find_span":
                    par = parent(st)
                    if not (isinstance(par, ast.Assign) and par.value is st and len(par.targets) == 1 and isinstance(par.targets[0], ast.Tuple)
                            and len(par.targets[0].elts) == 2 and all(isinstance(x, ast.Name) for x in par.targets[0].elts)):
                        return False, f"`{q}` uses the result of cu_find_span in another way than `span, offset = cu_find_span(...)`"
                    names |= {x.id for x in par.targets[0].elts}
            for n in ast.walk(f):
                if isinstance(n, ast.Name) and n.id in names and isinstance(n.ctx, (ast.Store, ast.Del)):
                    par = parent(n)
                    par2 = parent(par) if par is not None else None
                    if isinstance(par, ast.Assign) and isinstance(par.value, ast.Call) and src(par.value.func).split(".")[-1] == "nu_find_span":
                        continue        # the same name receives the span of the other family on the other arm of a dispatch
                    if not (isinstance(par, ast.Tuple) and isinstance(par2, ast.Assign) and isinstance(par2.value, ast.Call) and
                            src(par2.value.func).split(".")[-1] == "cu_find_span"):
                        return False, f"`{q}` re-binds `{n.id}`, which holds a result of cu_find_span (line {getattr(n, 'lineno', '?')})"
    return True, ""


def cardinal_cubic(chk):
    """cu_basis_funs / cu_basis_funs_1st_der are the cardinal cubic B-spline pieces"""
    mod = chk.mod(U.CU)
    o, dx = sp.symbols("offset dx", real=True)
    fn = mod.func("cu_basis_funs")
    load_routine_formals(chk)
    try:
        blind = engine_blind_spot(fn)
        if blind:
            raise Undecided(blind)
        if len(fn.args.args) != 3 or not same_parameter_roles("cu_basis_funs"):
            raise Undecided(f"parameters {[a.arg for a in fn.args.args]} are not (span, offset, values)")
        names = [a.arg for a in fn.args.args]              # roles by position
        args = make_args(fn, overrides={names[1]: o})
        ex = SymExec(fn, args, calls={})
        ex.run()
        vals = [sp.sympify(ex.env[names[2]].read([Integer(k)])) for k in range(4)]
        if any(not v.is_polynomial(o) or v.free_symbols - {o} for v in vals):
            raise Undecided(f"values are not polynomials of the offset: {vals}")
    except (Undecided, KeyError, AttributeError, TypeError) as e:
        chk.ob("F8-cardinal-cubic", fn, "cu_basis_funs", None, f"basis values not extractable: {type(e).__name__}: {e}", file=U.CU, func="cu_basis_funs")
        return
    want = _cardinal_pieces(o)
    # ASSUMPTION of a VIOLATED verdict on the pieces: entry k is meant to be the piece of function cell + k, unscaled.  A table that holds
    # the four pieces in another order, or all of them times one factor, is another contract with the evaluators: UNDECIDED here (the
    # evaluators are then undecided too, see `cu_basis_contract`).
    rel_v = _table_relation(vals, want)
    for k in range(4):
        ok = sp.expand(vals[k] - want[k]) == 0
        if not ok and rel_v != "other":
            chk.ob("F8-cardinal-cubic", fn, f"values[{k}]", None,
                   f"values = {[str(sp.expand(v)) for v in vals]}: the four cardinal pieces " +
                   (f"in the order {rel_v[1]}" if rel_v[0] == "perm" else f"times {rel_v[1]}") +
                   " - another convention between the basis routine and its readers, which is not compared end to end", file=U.CU, func="cu_basis_funs")
            continue
        chk.ob("F8-cardinal-cubic", fn, f"values[{k}]", ok, f"piece {k} of the cardinal cubic B-spline on a cell: {sp.expand(want[k])}" if ok else
               f"values[{k}] = {sp.expand(vals[k])}, the cardinal cubic piece is {sp.expand(want[k])}", file=U.CU, func="cu_basis_funs")
    tot = sp.expand(sum(vals))
    scaled = isinstance(rel_v, tuple) and rel_v[0] == "scaled"
    chk.ob("F8-partition-of-unity", fn, "sum(values) == 1", True if tot == 1 else (None if scaled else False),
           "the four pieces sum to 1 identically" if tot == 1 else
           f"the pieces sum to {tot}" + (" (every piece carries the same factor: a scaling left to the readers, not compared)" if scaled else ""),
           file=U.CU, func="cu_basis_funs")
    # non-negativity on [0,1]: Bernstein coefficients of each cubic are >= 0
    from math import comb
    for k in range(4):
        p = sp.Poly(sp.expand(vals[k]), o)
        a = [p.coeff_monomial(o ** m) for m in range(4)]
        bern = [sum(sp.Rational(comb(i_, m), comb(3, m)) * a[m] for m in range(i_ + 1)) for i_ in range(4)]
        ok = all(b >= 0 for b in bern)
        chk.ob("F8-non-negative", fn, f"values[{k}] >= 0 on [0,1]", True if ok else (None if scaled else False),
               f"Bernstein coefficients {bern} are non-negative" if ok else
               f"Bernstein coefficients {bern} are not all non-negative", file=U.CU, func="cu_basis_funs")
    fd = mod.func("cu_basis_funs_1st_der")
    try:
        blind = engine_blind_spot(fd)
        if blind:
            raise Undecided(blind)
        if len(fd.args.args) != 4 or not same_parameter_roles("cu_basis_funs_1st_der"):
            raise Undecided(f"parameters {[a.arg for a in fd.args.args]} are not (span, offset, dx, ders)")
        names = [a.arg for a in fd.args.args]
        a2 = make_args(fd, overrides={names[1]: o, names[2]: dx})
        ex2 = SymExec(fd, a2, calls={})
        ex2.run()
        ders = [sp.sympify(ex2.env[names[3]].read([Integer(k)])) for k in range(4)]
        if any(v.free_symbols - {o, dx} for v in ders):
            raise Undecided(f"derivatives depend on more than offset and dx: {ders}")
    except (Undecided, KeyError, AttributeError, TypeError) as e:
        chk.ob("F8-derivative", fd, "cu_basis_funs_1st_der", None, f"derivative values not extractable: {type(e).__name__}: {e}", file=U.CU,
               func="cu_basis_funs_1st_der")
        ders = None
    if ders is not None:
        # relational: the derivative routine against the value routine AS EXTRACTED (same order, derivative with respect to x = xmin +
        # (cell + offset) dx).  A table that is the expected one reordered or uniformly rescaled (e.g. d/d offset, the division by dx left
        # to the evaluators) is another contract with the readers: UNDECIDED.
        wantd = [sp.diff(vals[k], o) / dx for k in range(4)]
        rel_d = _table_relation(ders, wantd)
        for k in range(4):
            ok = sp.expand(ders[k] - wantd[k]) == 0
            if not ok and rel_d != "other":
                chk.ob("F8-derivative", fd, f"ders[{k}] == d/dx values[{k}]", None,
                       f"ders = {[str(sp.expand(v)) for v in ders]}: the derivatives of the value pieces " +
                       (f"in the order {rel_d[1]}" if rel_d[0] == "perm" else f"times {rel_d[1]}") +
                       " - another convention between the derivative routine and its readers (order, which side divides by dx), not compared "
                       "end to end", file=U.CU, func="cu_basis_funs_1st_der")
                continue
            chk.ob("F8-derivative", fd, f"ders[{k}] == d/dx values[{k}]", ok, "derivative of the value piece with respect to x = xmin + (cell+offset) dx"
                   if ok else f"ders[{k}] = {sp.expand(ders[k])} but d values[{k}]/dx = {sp.expand(wantd[k])}", file=U.CU,
                   func="cu_basis_funs_1st_der")
        tot = sp.expand(sum(ders))
        chk.ob("F8-derivative", fd, "sum(ders) == 0", tot == 0, "the derivatives sum to 0 identically" if tot == 0 else f"sum is {tot}",
               file=U.CU, func="cu_basis_funs_1st_der")
    # span search: (x - xmin)/dx, integer part, right end point mapped to the last cell with offset 1
    fs = mod.func("cu_find_span")
    res = uniform_span_analysis(fs)
    K = res["K"]
    verdict, why = res["ok"], res["why"]
    if verdict is False:
        plain, ptext = span_results_used_as_returned(chk)
        if not plain:
            verdict, why = None, (f"{why} - unless a caller repairs it: {ptext}, so the index / offset the basis routines receive is not the one "
                                  "returned (search and callers are not composed)")
    chk.ob("F8-uniform-span", fs, "cu_find_span", verdict,
           (f"cell = int((x-xmin)/dx), the index returned is cell+{K} (the 4 splines on that cell are the functions "
            f"[index-{K}, index-{K}+3]); the point whose cell index reaches ncells (x = xmax) is evaluated in the last cell with offset 1 "
            f"(index = ncells+{K - 1})") if verdict else why, file=U.CU, func="cu_find_span")


# --------------------------------------------------------------------------
# path specialisation: a method seen as straight-line code
# --------------------------------------------------------------------------
def clone(node):
    """structural copy of a syntax tree (fields and positions only: the parent links of the source model are not followed)"""
    if isinstance(node, list):
        return [clone(x) for x in node]
    if not isinstance(node, ast.AST):
        return node
    new = type(node)()
    for f in node._fields:
        if hasattr(node, f):
            setattr(new, f, clone(getattr(node, f)))
    for a in ("lineno", "col_offset", "end_lineno", "end_col_offset"):
        if hasattr(node, a):
            setattr(new, a, getattr(node, a))
    return new


def _chain(e):
    """Name or attribute chain on a Name (`self._basis.knots`): a reference to an object, no computation"""
    while isinstance(e, ast.Attribute):
        e = e.value
    return isinstance(e, ast.Name)


def _simple_actual(e):
    return _chain(e) or isinstance(e, ast.Constant)


class _Sub(ast.NodeTransformer):
    """replace loads of names by (copies of) expressions"""

    def __init__(self, env):
        self.env = env

    def visit_Name(self, node):
        if isinstance(node.ctx, ast.Load) and node.id in self.env:
            new = clone(self.env[node.id])
            for x in ast.walk(new):
                ast.copy_location(x, node)
            return new
        return node


class _Ren(ast.NodeTransformer):
    def __init__(self, m):
        self.m = m

    def visit_Name(self, node):
        if node.id in self.m:
            node.id = self.m[node.id]
        return node


def _stores(fn):
    """name -> number of binding sites in the function (assignments, loop targets, with/except names, parameters excluded)"""
    cnt = {}
    for n in ast.walk(fn):
        if isinstance(n, ast.Name) and isinstance(n.ctx, (ast.Store, ast.Del)):
            cnt[n.id] = cnt.get(n.id, 0) + 1
    return cnt


def _attr_stores(fn):
    """source of every attribute reference the function assigns to (`self._x = ...`)"""
    return {src(n) for n in ast.walk(fn) if isinstance(n, ast.Attribute) and isinstance(n.ctx, (ast.Store, ast.Del))}


def _terminates(block):
    if not block:
        return False
    last = block[-1]
    if isinstance(last, (ast.Return, ast.Raise)):
        return True
    if isinstance(last, ast.If):
        return _terminates(last.body) and _terminates(last.orelse)
    return False


def _is_docstring(st):
    return isinstance(st, ast.Expr) and isinstance(st.value, ast.Constant) and isinstance(st.value.value, str)


class Specialiser:
    """Static specialisation of a method of a class (no execution: the syntax tree is rewritten).

    * locals bound once to an object reference (`basis = self._basis`, `n1, n2 = b1.nbasis, b2.nbasis`, a local that an
      `assert <name> is <reference>` identifies with a reference) are replaced by that reference;
    * calls of other methods of the same class through `self.` / `cls.` / the class name are replaced by the callee's body
      (parameters bound to the actual arguments, the callee's locals renamed apart);
    * a branch whose test is decided by `facts` (canonical source of a boolean expression -> truth value, e.g.
      {"self._basis.periodic": True}) is replaced by the arm taken; statements after a `return` are dropped;
    * `if c: ...return`  followed by more statements becomes `if c: ... else: <the rest>` (guard clauses and if/else read alike).

    The result is a statement list with the behaviour of the method on the runs that satisfy `facts`."""

    def __init__(self, mod, cls_name, facts=None, keep=(), max_depth=3):
        self.mod, self.cls_name = mod, cls_name
        self.facts = {self._canon_text(k): v for k, v in (facts or {}).items()}
        self.keep = set(keep)
        self.max_depth = max_depth
        self.k = 0
        self.inlined = []
        self.opaque = []
        try:
            self.methods = mod.methods(cls_name)
        except AnalysisError:
            self.methods = {}

    @staticmethod
    def _canon_text(t):
        return ast.unparse(ast.parse(t, mode="eval").body)

    # -- truth of a test under the facts
    def truth(self, test):
        if isinstance(test, ast.Constant):
            return bool(test.value)
        if isinstance(test, ast.UnaryOp) and isinstance(test.op, ast.Not):
            v = self.truth(test.operand)
            return None if v is None else (not v)
        if isinstance(test, ast.BoolOp):
            vs = [self.truth(v) for v in test.values]
            if isinstance(test.op, ast.And):
                if any(v is False for v in vs):
                    return False
                return True if all(v is True for v in vs) else None
            if any(v is True for v in vs):
                return True
            return False if all(v is False for v in vs) else None
        if isinstance(test, ast.Compare) and len(test.ops) == 1 and isinstance(test.comparators[0], ast.Constant) and \
                isinstance(test.comparators[0].value, bool) and isinstance(test.ops[0], (ast.Is, ast.Eq, ast.IsNot, ast.NotEq)):
            v = self.truth(test.left)
            if v is None:
                return None
            same = v == test.comparators[0].value
            return same if isinstance(test.ops[0], (ast.Is, ast.Eq)) else (not same)
        return self.facts.get(src(test))

    # -- entry
    def run(self, name):
        fn = self.methods.get(name)
        if fn is None:
            raise AnalysisError(f"anchor vanished: {self.mod.rel}:{self.cls_name}.{name}")
        return self._function(fn, {}, [name])

    def _function(self, fn, env, stack):
        fn = clone(fn)
        body = [st for st in fn.body if not _is_docstring(st)]
        cnt = _stores(fn)
        params = {a.arg for a in fn.args.args + fn.args.kwonlyargs + fn.args.posonlyargs}
        ctx = {"cnt": cnt, "params": params, "fn": fn, "stack": stack, "loaded": set(), "attr_stores": _attr_stores(fn)}
        return self._block(body, dict(env), ctx)

    # -- aliases
    def _alias_pairs(self, st, env, ctx):
        """(name, reference) pairs defined by this statement, or None"""
        def ok_name(t):
            return isinstance(t, ast.Name) and ctx["cnt"].get(t.id, 0) == 1 and t.id not in ctx["params"] and t.id not in ctx["loaded"]

        def ok_ref(v):
            if not _chain(v):
                return False
            root = v
            while isinstance(root, ast.Attribute):
                if src(root) in ctx["attr_stores"]:
                    return False          # the function rebinds this attribute: the local keeps the OLD object
                root = root.value
            # the root is self, a parameter that is never rebound, or was an alias (already substituted)
            return root.id in ("self", "cls") or (root.id in ctx["params"] and ctx["cnt"].get(root.id, 0) == 0)
        if isinstance(st, ast.Assign) and len(st.targets) == 1:
            t, v = st.targets[0], st.value
            if ok_name(t) and ok_ref(v):
                return [(t.id, v)]
            if isinstance(t, ast.Tuple) and isinstance(v, ast.Tuple) and len(t.elts) == len(v.elts) and \
                    all(ok_name(a) and ok_ref(b) for a, b in zip(t.elts, v.elts)):
                return [(a.id, b) for a, b in zip(t.elts, v.elts)]
        return None

    def _block(self, stmts, env, ctx):
        out = []
        for idx, st0 in enumerate(stmts):
            if isinstance(st0, ast.Assert) and isinstance(st0.test, ast.Compare) and len(st0.test.ops) == 1 and \
                    isinstance(st0.test.ops[0], ast.Is) and isinstance(st0.test.left, ast.Name) and \
                    ctx["cnt"].get(st0.test.left.id, 0) == 1 and st0.test.left.id not in env and _chain(st0.test.comparators[0]):
                # execution continues only when the local IS that object: from here on it is that reference
                ref = _Sub(env).visit(clone(st0.test.comparators[0]))
                out.append(st0)
                env[st0.test.left.id] = ref
                continue
            pairs = None
            if isinstance(st0, ast.Assign):
                st_v = clone(st0)
                st_v.value = _Sub(env).visit(st_v.value)
                pairs = self._alias_pairs(st_v, env, ctx)
            if pairs:
                for n_, v_ in pairs:
                    env[n_] = v_
                continue
            for n_ in own_exprs(st0):
                if isinstance(n_, ast.Name) and isinstance(n_.ctx, ast.Load) and n_.id not in env:
                    ctx["loaded"].add(n_.id)
            if isinstance(st0, ast.If):
                test = _Sub(env).visit(clone(st0.test))
                v = self.truth(test)
                if v is not None:
                    arm = self._block(st0.body if v else st0.orelse, env, ctx)
                    out += arm
                    if _terminates(arm):
                        return out
                    continue
                body = self._block(st0.body, dict(env), ctx)
                orelse = self._block(st0.orelse, dict(env), ctx)
                rest = stmts[idx + 1:]
                if rest and _terminates(body) and not _terminates(orelse):
                    orelse = orelse + self._block(rest, dict(env), ctx)
                    out.append(ast.copy_location(ast.If(test=test, body=body or [ast.Pass()], orelse=orelse), st0))
                    return out
                if rest and _terminates(orelse) and not _terminates(body):
                    body = body + self._block(rest, dict(env), ctx)
                    out.append(ast.copy_location(ast.If(test=test, body=body, orelse=orelse), st0))
                    return out
                out.append(ast.copy_location(ast.If(test=test, body=body or [ast.Pass()], orelse=orelse), st0))
                if _terminates(out):
                    return out
                continue
            if isinstance(st0, (ast.For, ast.While, ast.With, ast.Try)):
                st = clone(st0)
                for f in ("iter", "test", "target"):
                    if hasattr(st, f) and f != "target":
                        setattr(st, f, _Sub(env).visit(clone(getattr(st, f))))
                if isinstance(st, ast.With):
                    st.items = [_Sub(env).visit(clone(i)) for i in st.items]
                for f in ("body", "orelse", "finalbody"):
                    b = getattr(st, f, None)
                    if b:
                        setattr(st, f, self._block(b, dict(env), ctx) or [ast.Pass()])
                for h in getattr(st, "handlers", []) or []:
                    h.body = self._block(h.body, dict(env), ctx) or [ast.Pass()]
                out.append(st)
                continue
            st = _Sub(env).visit(clone(st0))
            got = self._inline(st, ctx)
            if got is not None:
                out += got
                if _terminates(got):
                    return out
                continue
            out.append(st)
            if isinstance(st, (ast.Return, ast.Raise)):
                return out
        return out

    # -- inlining of own methods
    def _own_call(self, call):
        f = call.func
        if isinstance(f, ast.Attribute) and isinstance(f.value, ast.Name) and f.value.id in ("self", "cls", self.cls_name) \
                and f.attr in self.methods and f.attr not in self.keep:
            return self.methods[f.attr]
        return None

    def _inline(self, st, ctx):
        if isinstance(st, ast.Expr) and isinstance(st.value, ast.Call):
            call, mode = st.value, "expr"
        elif isinstance(st, ast.Assign) and isinstance(st.value, ast.Call) and len(st.targets) == 1:
            call, mode = st.value, "assign"
        elif isinstance(st, ast.Return) and isinstance(st.value, ast.Call):
            call, mode = st.value, "return"
        else:
            return None
        callee = self._own_call(call)
        if callee is None:
            return None
        why = None
        decs = [src(d) for d in callee.decorator_list]
        if any(d not in ("staticmethod", "classmethod") for d in decs):
            why = f"decorated {decs}"
        if callee.name in ctx["stack"] or len(ctx["stack"]) > self.max_depth:
            why = "recursion / depth"
        a = callee.args
        if a.vararg or a.kwarg or a.posonlyargs or any(isinstance(x, ast.Starred) for x in call.args) or any(k.arg is None for k in call.keywords):
            why = "variadic"
        for n_ in ast.walk(callee):
            if isinstance(n_, (ast.Yield, ast.YieldFrom, ast.Global, ast.Nonlocal)) or \
                    (isinstance(n_, (ast.FunctionDef, ast.AsyncFunctionDef, ast.ClassDef)) and n_ is not callee):
                why = "generator / nested scope"
        if why:
            self.opaque.append((callee.name, why))
            return None
        formals = [x.arg for x in a.args]
        if "staticmethod" not in decs:
            formals = formals[1:]
        nd = len(a.defaults)
        defaults = {x.arg: d for x, d in zip(a.args[len(a.args) - nd:], a.defaults)}
        for x, d in zip(a.kwonlyargs, a.kw_defaults):
            formals.append(x.arg)
            if d is not None:
                defaults[x.arg] = d
        bound = {}
        if len(call.args) > len(formals):
            self.opaque.append((callee.name, "arity"))
            return None
        for f_, v_ in zip(formals, call.args):
            bound[f_] = v_
        for k_ in call.keywords:
            if k_.arg not in formals or k_.arg in bound:
                self.opaque.append((callee.name, "keywords"))
                return None
            bound[k_.arg] = k_.value
        for f_ in formals:
            if f_ not in bound:
                if f_ not in defaults:
                    self.opaque.append((callee.name, "missing argument"))
                    return None
                bound[f_] = defaults[f_]
        callee = clone(callee)
        cnt = _stores(callee)
        self.k += 1
        caller_names = {n_.id for n_ in ast.walk(ctx["fn"]) if isinstance(n_, ast.Name)} | ctx["params"] | set(getattr(self, "_spliced", ()))
        ren = {}
        for n_ in list(cnt) + formals:
            if n_ in caller_names or n_ in ren:
                ren[n_] = f"{n_}__{self.k}"
        pre, env = [], {}
        for f_ in formals:
            v_ = bound[f_]
            if cnt.get(f_, 0) == 0 and _simple_actual(v_):
                env[f_] = v_
            else:
                tgt = ren.get(f_, f_)
                pre.append(ast.copy_location(ast.Assign(targets=[ast.Name(id=tgt, ctx=ast.Store())], value=v_, lineno=st.lineno), st))
        # rename the callee's own locals apart (parameters substituted by their actuals keep their name in env)
        body = [st_ for st_ in callee.body if not _is_docstring(st_)]
        if ren:
            keep_env = {k_: v_ for k_, v_ in env.items()}
            body = [_Ren({k_: v_ for k_, v_ in ren.items() if k_ not in keep_env}).visit(st_) for st_ in body]
        self._spliced = set(getattr(self, "_spliced", ())) | {ren.get(n_, n_) for n_ in cnt}
        sub_cnt = _stores(ast.Module(body=body, type_ignores=[]))
        sub_ctx = {"cnt": sub_cnt, "params": {ren.get(f_, f_) for f_ in formals if f_ not in env} | set(env), "fn": ctx["fn"],
                   "stack": ctx["stack"] + [callee.name], "loaded": set(), "attr_stores": _attr_stores(callee) | ctx["attr_stores"]}
        # parameters passed by reference are never rebound in the callee (checked above): they count as stable roots
        for f_ in env:
            sub_ctx["cnt"][f_] = 0
        flat = self._block(body, env, sub_ctx)
        res = self._splice_returns(flat, st, mode)
        if res is None:
            self.opaque.append((callee.name, "return inside a loop or before the end"))
            return None
        self.inlined.append(callee.name)
        # an actual argument that is itself a call of an own method is written back too
        pre2 = []
        for x in pre:
            got = self._inline(x, ctx) if isinstance(x.value, ast.Call) and self._own_call(x.value) is not None else None
            pre2 += got if got is not None else [x]
        pre = pre2
        for x in pre + res:
            ast.fix_missing_locations(x)
        return pre + res

    def _splice_returns(self, flat, st, mode):
        """returns at tail positions become the effect the call statement has on its caller; None when a return sits elsewhere"""
        def tail(block):
            if not block:
                return self._result(None, st, mode)
            last = block[-1]
            head = block[:-1]
            if any(isinstance(n_, ast.Return) for h in head for n_ in ast.walk(h)):
                return None
            if isinstance(last, ast.Return):
                r = self._result(last.value, st, mode)
                return head + r
            if isinstance(last, ast.If):
                b, o = tail(last.body), tail(last.orelse)
                if b is None or o is None:
                    return None
                new = ast.copy_location(ast.If(test=last.test, body=b or [ast.Pass()], orelse=o), last)
                return head + [new]
            if any(isinstance(n_, ast.Return) for n_ in ast.walk(last)):
                return None
            if isinstance(last, ast.Raise):
                return block
            return block + self._result(None, st, mode)
        return tail(flat)

    def _result(self, value, st, mode):
        if mode == "return":
            return [ast.copy_location(ast.Return(value=value), st)]
        if mode == "assign":
            v = value if value is not None else ast.Constant(value=None)
            return [ast.copy_location(ast.Assign(targets=clone(st.targets), value=v, lineno=st.lineno), st)]
        if value is None or _simple_actual(value):
            return []
        return [ast.copy_location(ast.Expr(value=value), st)]


def walk_guarded(stmts, guards=()):
    """(statement, guards) for every statement of a (specialised) statement list, guards = tuple of (test, polarity, if-node)"""
    for st in stmts:
        yield st, guards
        if isinstance(st, ast.If):
            yield from walk_guarded(st.body, guards + ((st.test, True, st),))
            yield from walk_guarded(st.orelse, guards + ((st.test, False, st),))
        else:
            for f in ("body", "orelse", "finalbody"):
                b = getattr(st, f, None)
                if isinstance(b, list) and b and isinstance(b[0], ast.stmt):
                    yield from walk_guarded(b, guards)
            for h in getattr(st, "handlers", []) or []:
                yield from walk_guarded(h.body, guards)


def own_exprs(st):
    """expression nodes of a statement, not those of nested statements"""
    stack = [c for c in ast.iter_child_nodes(st) if not isinstance(c, ast.stmt)]
    while stack:
        n = stack.pop()
        yield n
        stack.extend(c for c in ast.iter_child_nodes(n) if not isinstance(c, ast.stmt))


# --------------------------------------------------------------------------
# dispatch between the two families, argument roles, evaluation points
# --------------------------------------------------------------------------
COERCIONS = ("np.asarray", "np.atleast_1d", "np.array", "float", "np.float64", "np.ascontiguousarray", "np.asanyarray")
FOLDS = ("np.mod", "np.fmod", "np.remainder", "np.clip", "min", "max", "np.minimum", "np.maximum", "math.fmod")


def _family(name):
    for p in ("cu_", "nu_"):
        if name.startswith(p):
            return p, name[len(p):]
    return None, name


def _evaluator_name(e):
    return isinstance(e, ast.Name) and _family(e.id)[0] is not None and "eval_spline" in e.id


def _polarity(test):
    """(positive test, swapped?)"""
    sw = False
    while isinstance(test, ast.UnaryOp) and isinstance(test.op, ast.Not):
        test, sw = test.operand, not sw
    return test, sw


class PointFlow:
    """which names hold the caller's evaluation points unchanged, and which hold something computed from them"""

    def __init__(self, pts, smod):
        self.same = set(pts)
        self.derived = {}          # name -> (verdict, text)
        self.smod = smod

    def classify(self, e):
        """'same' | 'other' (does not involve a point) | (False|None, diagnosis)"""
        if isinstance(e, ast.Name):
            if e.id in self.same:
                return "same"
            if e.id in self.derived:
                return self.derived[e.id]
            return "other"
        if isinstance(e, ast.Call) and src(e.func) in COERCIONS and e.args:
            c = self.classify(e.args[0])
            return c
        involved = [n.id for n in ast.walk(e) if isinstance(n, ast.Name) and (n.id in self.same or n.id in self.derived)]
        if not involved:
            return "other"
        for n in ast.walk(e):
            if isinstance(n, ast.Name) and n.id in self.derived and self.derived[n.id][0] is False:
                return self.derived[n.id]
        text = src(e)[:70]
        folds = [n for n in ast.walk(e) if (isinstance(n, ast.BinOp) and isinstance(n.op, (ast.Mod, ast.FloorDiv))) or
                 (isinstance(n, ast.Call) and src(n.func) in FOLDS)]
        if folds:
            # ASSUMPTION of VIOLATED: the operation changes some point of the closed domain.  A remainder / floor division by the period
            # does (the right end point goes to the left end).  A clamp (min / max / clip) is the identity on the closed domain when its
            # bounds are the ends of the domain, which is a matter of values: UNDECIDED.
            mods = [n for n in folds if isinstance(n, ast.BinOp) or src(n.func) in ("np.mod", "np.fmod", "np.remainder", "math.fmod")]
            if not mods:
                return (None, f"`{text}` clamps the evaluation point (`{src(folds[0])[:50]}`): the identity on the closed domain only if the "
                              "bounds are its end points, which is not followed")
            return (False, f"`{text}` folds the evaluation point (`{src(mods[0])[:50]}`)")
        if isinstance(e, ast.Call) and isinstance(e.func, ast.Attribute) and len(e.args) == 1 and not e.keywords and \
                self.classify(e.args[0]) == "same":
            # a method of the basis applied to the point: read what it returns
            try:
                m = self.smod.methods("BSplines").get(e.func.attr)
            except AnalysisError:
                m = None
            if m is not None and len(m.args.args) == 2:
                par = m.args.args[1].arg
                rets = [r.value for r in ast.walk(m) if isinstance(r, ast.Return)]
                if rets and all(isinstance(r, ast.Name) and r.id == par for r in rets) and _stores(m).get(par, 0) == 0:
                    return "same"
                inner = PointFlow([par], self.smod)
                for r in rets:
                    if r is None:
                        continue
                    c = inner.classify(r)
                    if isinstance(c, tuple) and c[0] is False:
                        return (False, f"`{text}`: BSplines.{m.name} returns `{src(r)[:60]}`, which folds the point into the base period")
                return (None, f"`{text}`: BSplines.{m.name} computes something from the point")
        return (None, f"`{text}` is computed from the evaluation point")

    def assign(self, st):
        """-> None, or (verdict, node, text) when a point is replaced"""
        if isinstance(st, ast.AugAssign) and isinstance(st.target, ast.Name) and st.target.id in self.same:
            self.same.discard(st.target.id)
            self.derived[st.target.id] = (None, f"`{src(st)[:70]}` changes the evaluation point in place")
            return self.derived[st.target.id]
        if not isinstance(st, ast.Assign):
            return None
        hit = None
        for t in st.targets:
            pairs = [(t, st.value)]
            if isinstance(t, ast.Tuple) and isinstance(st.value, ast.Tuple) and len(t.elts) == len(st.value.elts):
                pairs = list(zip(t.elts, st.value.elts))
            for a, v in pairs:
                if not isinstance(a, ast.Name):
                    continue
                c = self.classify(v)
                if c == "same":
                    self.same.add(a.id)
                    self.derived.pop(a.id, None)
                elif c == "other":
                    if a.id in self.same:
                        self.same.discard(a.id)
                        self.derived[a.id] = (None, f"`{src(st)[:70]}` replaces the evaluation point by something else")
                        hit = hit or self.derived[a.id]
                    else:
                        self.derived.pop(a.id, None)
                else:
                    was_point = a.id in self.same
                    self.same.discard(a.id)
                    self.derived[a.id] = c
                    if was_point:
                        hit = hit or c
        return hit


MOVED_WHY = (": the value returned is that of the piecewise polynomial at another point (e.g. the right end of a periodic domain folded "
             "onto the left end takes the left end's value and slope, which differ unless the coefficients happen to be wrapped)")


# --------------------------------------------------------------------------
# which array reaches a kernel as its knots, on which kind of space: constructor, properties and dispatch test read together
# --------------------------------------------------------------------------
def _raises(block):
    """does every path through the block end with `raise`?"""
    if not block:
        return False
    last = block[-1]
    if isinstance(last, ast.Raise):
        return True
    if isinstance(last, ast.If):
        return _raises(last.body) and _raises(last.orelse)
    return False


def _expr(text):
    return ast.parse(text, mode="eval").body


class ClassModel:
    """what the constructor of a class leaves behind, read off its (specialised) syntax tree: attribute -> [(conditions, value)],
    parameters kept as attributes, preconditions (assertions, `if c: raise`).  conditions = [(test, polarity)]"""

    def __init__(self, mod, cls_name):
        self.defs, self.stored, self.pre, self.ok, self.params = {}, {}, [], False, []
        try:
            init = mod.methods(cls_name).get("__init__")
            if init is None:
                return
            body = Specialiser(mod, cls_name).run("__init__")
        except AnalysisError:
            return
        self.params = [a.arg for a in init.args.args[1:]] + [a.arg for a in init.args.kwonlyargs]
        cnt = _stores(init)
        raw = []
        for st, guards in walk_guarded(body):
            conds = []
            for t, pol, node in guards:
                other = node.orelse if pol else node.body
                if not _raises(other):
                    conds.append((t, pol))
            if isinstance(st, ast.If):
                if _raises(st.body):
                    self.pre.append((st.test, False))
                elif _raises(st.orelse):
                    self.pre.append((st.test, True))
            if isinstance(st, ast.Assert) and not conds:
                self.pre.append((st.test, True))
            if isinstance(st, ast.Assign):
                for t in st.targets:
                    pairs = [(t, st.value)]
                    if isinstance(t, ast.Tuple) and isinstance(st.value, ast.Tuple) and len(t.elts) == len(st.value.elts):
                        pairs = list(zip(t.elts, st.value.elts))
                    for a, v in pairs:
                        if isinstance(a, ast.Attribute) and src(a.value) == "self":
                            raw.append((src(a), conds, v))
                        elif isinstance(a, ast.Tuple):
                            for k, el in enumerate(a.elts):
                                if isinstance(el, ast.Attribute) and src(el.value) == "self":
                                    raw.append((src(el), conds, ast.Subscript(value=v, slice=ast.Constant(value=k), ctx=ast.Load())))
        for name, conds, v in raw:
            if not conds and isinstance(v, ast.Name) and v.id in self.params and cnt.get(v.id, 0) == 0:
                self.stored.setdefault(v.id, name)
        env = {p_: _expr(a) for p_, a in self.stored.items()}

        def sub(e):
            return _Sub(env).visit(clone(e))
        for name, conds, v in raw:
            self.defs.setdefault(name, []).append(([(sub(t), pol) for t, pol in conds], sub(v)))
        self.pre = [(sub(t), pol) for t, pol in self.pre]
        self.ok = True


class FamilyModel:
    """For a spline class: which expression an attribute / property chain denotes on each kind of space.

    Atoms are, for every basis B the spline holds, `B is cubic uniform` and `B is periodic` (the attributes of BSplines the
    properties `cubic_uniform` / `periodic` return).  An expression is resolved through the attributes its constructor stores and
    through the properties of BSplines into alternatives guarded by conditions over these atoms; a truth assignment of the atoms that
    satisfies the constructor's preconditions selects one alternative.  Nothing is executed."""

    def __init__(self, smod, cls_name):
        self.smod, self.cls_name = smod, cls_name
        self.bases = ["self._basis"] if cls_name == "Spline1D" else ["self._basis1", "self._basis2"]
        self.own = ClassModel(smod, cls_name)
        self.bs = ClassModel(smod, "BSplines")
        self._props = {}
        self.ok = self.own.ok and self.bs.ok
        self.cu, self.per, self.knots_leaf = {}, {}, {}
        for B in self.bases:
            for table, attr in ((self.cu, "cubic_uniform"), (self.per, "periodic"), (self.knots_leaf, "knots")):
                alts = self.alts(_expr(f"{B}.{attr}"))
                if len(alts) == 1 and not alts[0][0] and src(alts[0][1]).startswith(B + "."):
                    table[B] = src(alts[0][1])
                else:
                    self.ok = False
        self.atoms = [self.cu.get(B) for B in self.bases] + [self.per.get(B) for B in self.bases]

    # -- properties
    def prop(self, cls, attr):
        key = (cls, attr)
        if key not in self._props:
            out = None
            try:
                m = self.smod.methods(cls).get(attr)
            except AnalysisError:
                m = None
            if m is not None and any(src(d) == "property" for d in m.decorator_list):
                try:
                    body = Specialiser(self.smod, cls).run(attr)
                    out = [([(t, pol) for t, pol, _n in guards], st.value) for st, guards in walk_guarded(body)
                           if isinstance(st, ast.Return) and st.value is not None]
                    loc = _stores(m)
                    if any(isinstance(n, ast.Name) and n.id in loc for _c, v in out for n in ast.walk(v)):
                        out = None          # the value is computed through locals: not a reference
                except AnalysisError:
                    out = None
            self._props[key] = out or None
        return self._props[key]

    def alts(self, e, depth=0):
        """[(conditions, leaf expression)]"""
        if depth > 8 or not isinstance(e, ast.Attribute):
            return [([], e)]
        s_ = src(e)
        if s_ in self.bases:
            return [([], e)]
        if src(e.value) == "self":
            if s_ in self.own.defs:
                out = []
                for conds, v in self.own.defs[s_]:
                    if src(v) == s_:
                        return [([], e)]
                    for c2, leaf in self.alts(v, depth + 1):
                        out.append((conds + c2, leaf))
                return out
            pr = self.prop(self.cls_name, e.attr)
            if pr is not None:
                out = []
                for conds, v in pr:
                    for c2, leaf in self.alts(v, depth + 1):
                        out.append((conds + c2, leaf))
                return out
            return [([], e)]
        base = self.alts(e.value, depth + 1)
        if len(base) == 1 and not base[0][0] and src(base[0][1]) in self.bases:
            B = base[0][1]
            pr = self.prop("BSplines", e.attr)
            if pr is not None:
                out = []
                for conds, v in pr:
                    cB = [(_Sub({"self": B}).visit(clone(t)), pol) for t, pol in conds]
                    for c2, leaf in self.alts(_Sub({"self": B}).visit(clone(v)), depth + 1):
                        out.append((cB + c2, leaf))
                return out
            return [([], ast.Attribute(value=clone(B), attr=e.attr, ctx=ast.Load()))]
        return [([], e)]

    def pick(self, e, a, depth=0):
        """the alternative of `e` selected by the assignment `a` (leaf expression), or None"""
        chosen = []
        for conds, leaf in self.alts(e):
            vals = [self.truth(t, a, depth + 1) for t, _p in conds]
            if any(v is None for v in vals):
                return None
            if all(v == pol for v, (_t, pol) in zip(vals, conds)):
                chosen.append(leaf)
        return chosen[0] if len(chosen) == 1 else None

    def truth(self, t, a, depth=0):
        if depth > 12:
            return None
        if isinstance(t, ast.Constant) and isinstance(t.value, bool):
            return t.value
        if isinstance(t, ast.UnaryOp) and isinstance(t.op, ast.Not):
            v = self.truth(t.operand, a, depth + 1)
            return None if v is None else not v
        if isinstance(t, ast.BoolOp):
            vs = [self.truth(x, a, depth + 1) for x in t.values]
            if isinstance(t.op, ast.And):
                return False if any(v is False for v in vs) else (True if all(v is True for v in vs) else None)
            return True if any(v is True for v in vs) else (False if all(v is False for v in vs) else None)
        if isinstance(t, ast.Compare) and len(t.ops) == 1 and isinstance(t.ops[0], (ast.Eq, ast.Is, ast.NotEq, ast.IsNot)):
            x, y = self.truth(t.left, a, depth + 1), self.truth(t.comparators[0], a, depth + 1)
            if x is None or y is None:
                return None
            return (x == y) if isinstance(t.ops[0], (ast.Eq, ast.Is)) else (x != y)
        if isinstance(t, ast.Attribute):
            leaf = self.pick(t, a, depth + 1)
            if leaf is None:
                return None
            if src(leaf) in a:
                return a[src(leaf)]
            if src(leaf) != src(t):
                return self.truth(leaf, a, depth + 1)
        return None

    def mentions_atoms(self, t):
        for n in ast.walk(t):
            if isinstance(n, ast.Attribute):
                for _c, leaf in self.alts(n):
                    for m in ast.walk(leaf):
                        if isinstance(m, ast.Attribute) and src(m) in self.atoms:
                            return True
        return False

    def assignments(self):
        """[(assignment, certain?)] satisfying the constructor's preconditions; certain = every precondition over the atoms was decided"""
        import itertools
        out = []
        for bits in itertools.product((True, False), repeat=len(self.atoms)):
            a = dict(zip(self.atoms, bits))
            feasible, certain = True, True
            for t, pol in self.own.pre:
                v = self.truth(t, a)
                if v is None:
                    if self.mentions_atoms(t):
                        certain = False
                elif v != pol:
                    feasible = False
                    break
            if feasible:
                out.append((a, certain))
        return out

    def describe(self, a):
        parts = []
        for B in self.bases:
            parts.append(f"`{B}` is {'cubic-uniform' if a[self.cu[B]] else 'general'}, {'periodic' if a[self.per[B]] else 'not periodic'}")
        return "when " + " and ".join(parts)

    # -- what BSplines keeps as `_knots`
    def stored_kind(self, cu_val):
        defs = self.bs.defs.get("self._knots")
        if not defs:
            return None
        tmp = {"self._cubic_uniform_splines": cu_val, "self.cubic_uniform": cu_val}
        chosen = []
        for conds, v in defs:
            vals = []
            for t, pol in conds:
                tv, sw = _polarity(t)
                x = tmp.get(src(tv))
                vals.append(None if x is None else ((not x if sw else x) == pol))
            if any(v_ is None for v_ in vals):
                return None
            if all(vals):
                chosen.append(v)
        if len(chosen) != 1:
            return None
        v = chosen[0]
        if isinstance(v, ast.Call) and src(v.func) in ("np.array", "np.asarray") and v.args and isinstance(v.args[0], (ast.List, ast.Tuple)) and \
                len(v.args[0].elts) == 4:
            return "compact"
        if isinstance(v, ast.Name) and self.bs.params and v.id == self.bs.params[0]:
            return "full"
        return None

    def make_knots_clamps(self):
        """does make_knots repeat the end points when `periodic` is false? (read off its else-branch)"""
        try:
            mk = self.smod.func("make_knots")
        except AnalysisError:
            return None
        for n in ast.walk(mk):
            if isinstance(n, ast.If) and src(_polarity(n.test)[0]) == "periodic":
                arm = n.body if _polarity(n.test)[1] else n.orelse
                vals = [src(st.value) for st in arm if isinstance(st, ast.Assign) and isinstance(st.targets[0], ast.Subscript)]
                if any(v_ in ("breaks[0]", "breaks[-1]") for v_ in vals):
                    return True
        return None

    def knots_kind(self, leaf, a):
        """-> (kind, basis, text): kind 'compact' (xmin, xmax, dx, ncells) | 'full' (a knot sequence of the space) | 'clamped' / 'wrapped'
        (a rebuilt sequence that is not the one the space is defined on) | None"""
        s_ = src(leaf)
        for B in self.bases:
            if s_ == self.knots_leaf.get(B):
                return self.stored_kind(a[self.cu[B]]), B, f"`{s_}`"
        if isinstance(leaf, ast.Call) and src(leaf.func) == "make_knots":
            try:
                formals = [x.arg for x in self.smod.func("make_knots").args.args]
            except AnalysisError:
                return None, None, ""
            b = agree.bind_call(leaf, formals)
            if b is None or len(formals) < 3 or formals[0] not in b or formals[2] not in b:
                return None, None, ""
            B = next((B_ for B_ in self.bases if src(b[formals[0]]).startswith(B_ + ".") and src(b[formals[0]]).endswith("breaks")), None)
            if B is None or not a[self.cu[B]]:
                return None, B, ""
            pv = self.truth(b[formals[2]], a)
            if pv is None and isinstance(b[formals[2]], ast.Attribute) and src(b[formals[2]]) in a:
                pv = a[src(b[formals[2]])]
            text = f"`{s_[:90]}`"
            if pv is None:
                return None, B, text
            if a[self.per[B]]:
                return ("full" if pv else None), B, text
            if pv:
                return "wrapped", B, text
            return ("clamped" if self.make_knots_clamps() else None), B, text
        return None, None, ""


def family_analysis(fm, q, site, sigs):
    """-> (verdict of the dispatch test, text), {(routine, formal): (verdict, text)} for the knots parameters of both arms"""
    roles = {f_: w.rsplit(".", 1)[0] for f_, w in _roles(q).items() if w.endswith(".knots")}
    out = {}
    if not fm.ok:
        return (None, "constructor / properties of the bases not followed"), out
    asg = fm.assignments()
    tverdict, ttext = True, "the fast path is taken only when every basis of the spline is cubic uniform"
    for arm, is_fast in ((site["fast"], True), (site["general"], False)):
        sig = sigs.get(arm["name"])
        fam = _family(arm["name"])[0]
        if sig is None or fam is None:
            continue
        b = agree.bind_call(ast.Call(func=ast.Name(id=arm["name"], ctx=ast.Load()), args=arm["args"], keywords=arm["keywords"]),
                            [x[0] for x in sig])
        if b is None:
            continue
        for f_, B in roles.items():
            if f_ not in b:
                continue
            verdict, text = True, ""
            for a, certain in asg:
                tv = fm.truth(site["test"], a)
                if tv is None:
                    verdict, text = (None, f"the dispatch test `{src(site['test'])}` is not decided {fm.describe(a)}") if verdict else (verdict, text)
                    tverdict, ttext = (None, text) if tverdict else (tverdict, ttext)
                    continue
                if tv != is_fast:
                    continue
                if is_fast and not all(a[fm.cu[B_]] for B_ in fm.bases) and tverdict is not False and certain:
                    tverdict = False
                    ttext = (f"`{src(site['test'])}` takes the fast path {fm.describe(a)}: `{arm['name']}` reads the knot array of every "
                             "dimension as (xmin, xmax, dx, ncells)")
                leaf = fm.pick(b[f_], a)
                if leaf is None:
                    verdict, text = (None, f"`{src(b[f_])[:60]}` is not resolved {fm.describe(a)}") if verdict else (verdict, text)
                    continue
                kind, KB, ktext = fm.knots_kind(leaf, a)
                via = "" if src(leaf) == src(b[f_]) else f" (`{src(b[f_])}`)"
                bad = None
                if KB is not None and KB != B:
                    bad = f"`{f_}` of `{arm['name']}` receives {ktext}{via}, the knots of the other dimension"
                elif kind is None:
                    verdict, text = (None, f"`{src(leaf)[:70]}`{via} is not a recognised knot array {fm.describe(a)}") if verdict else (verdict, text)
                    continue
                elif fam == "cu_" and kind != "compact":
                    bad = (f"{fm.describe(a)}, `{f_}` of `{arm['name']}` receives {ktext}{via}, a knot sequence, which the cubic-uniform routine "
                           "reads as (xmin, xmax, dx, ncells)")
                elif fam == "nu_" and kind == "compact":
                    bad = (f"{fm.describe(a)}, `{f_}` of `{arm['name']}` receives {ktext}{via}, the compact array (xmin, xmax, dx, ncells) of a "
                           "cubic-uniform basis, which the general routine reads as a knot sequence")
                elif fam == "nu_" and kind in ("clamped", "wrapped"):
                    how = ("repeats the end points (clamped knots) when the space is not periodic" if kind == "clamped" else
                           "continues the knots by periodicity although the space is not periodic")
                    bad = (f"{fm.describe(a)}, `{f_}` of `{arm['name']}` receives {ktext}{via}: make_knots {how}, but the functions of a "
                           "non-periodic cubic-uniform space (as evaluated by the cu_ routines, Spline1D and the interpolators) are the cardinal "
                           "cubic B-splines on equidistant knots continued three cells past each end, so the value returned is that of "
                           "another function than the one the coefficients define")
                if bad:
                    if certain:
                        verdict, text = False, bad
                        break
                    verdict, text = (None, bad + " - unless a precondition of the constructor that was not decided excludes this case") \
                        if verdict else (verdict, text)
            out[(arm["name"], f_)] = (verdict, text)
    return (tverdict, ttext), out


def _roles(q):
    """formal of the kernel -> canonical source of the actual expected from the entry point"""
    if q.startswith("Spline1D"):
        return {"knots": "self._basis.knots", "degree": "self._basis.degree", "coeffs": "self._coeffs"}
    return {"kts1": "self._basis1.knots", "deg1": "self._basis1.degree", "kts2": "self._basis2.knots", "deg2": "self._basis2.degree",
            "coeffs": "self._coeffs"}


def check_site(chk, q, smod, site, sigs, flow, fn, fm=None):
    """one place where an entry point hands over to a kernel of one of the two families"""
    node, test, fast, gen = site["node"], site["test"], site["fast"], site["general"]
    (fam_test, fam_test_text), fam_knots = family_analysis(fm, q, site, sigs) if fm is not None else ((None, ""), {})
    site["family"] = (fam_test, fam_knots)
    label = f"{fast['name']}/{gen['name']}"
    pa, sa = _family(fast["name"])
    pb, sb = _family(gen["name"])
    why = []
    ok = True
    # ASSUMPTIONS of a VIOLATED verdict here: (1) the prefix cu_/nu_ of a routine of the two kernel modules says which knot description it
    # reads (E4 reads the kernels themselves); (2) the test selects the fast arm exactly for cubic-uniform bases (decided by the rule
    # E1-dispatch-test; without it nothing says which arm is which).  Under these, a fast arm calling a nu_ routine or a general arm
    # calling a cu_ routine hands one family's knot array to the other family's reader.  Two DIFFERENT routines of the right families
    # (e.g. the scalar kernel on one arm, the vector kernel on a one-point array on the other) are not wrong by themselves: UNDECIDED.
    own_fast = ("self._basis.cubic_uniform",) if q.startswith("Spline1D") else ("self._basis1.cubic_uniform", "self._basis2.cubic_uniform")
    test_known = src(test).replace("._cubic_uniform_splines", ".cubic_uniform") in own_fast or fam_test is True
    if pa == "nu_" or pb == "cu_":
        ok = False if test_known else None
        why.append(f"the arms call `{fast['name']}` / `{gen['name']}`: the {'fast' if pa == 'nu_' else 'general'} arm calls a routine of the "
                   "other family, which reads the knot array of this family of bases differently" +
                   ("" if test_known else " (if the test selects the fast arm for cubic-uniform bases, which was not established)"))
    elif not (pa == "cu_" and pb == "nu_" and sa == sb):
        ok = None
        why.append(f"the arms call `{fast['name']}` / `{gen['name']}`: not the cu_/nu_ pair of one routine; whether the two do the same job "
                   "is not compared")
    if site.get("targets") and site["targets"][0] != site["targets"][1]:
        ok = None if ok else ok
        why.append(f"results go to different targets `{site['targets'][0]}` / `{site['targets'][1]}`: what happens to them afterwards is not followed")
    la = [src(x) for x in fast["args"]], [(k.arg, src(k.value)) for k in fast["keywords"]]
    lb = [src(x) for x in gen["args"]], [(k.arg, src(k.value)) for k in gen["keywords"]]
    fa, fb = sigs.get(fast["name"]), sigs.get(gen["name"])
    if la != lb:
        # the same actuals may be written positionally on one arm and by keyword on the other: compare parameter by parameter
        ba = bb = None
        if fa is not None and fb is not None:
            mk = lambda arm: ast.Call(func=ast.Name(id=arm["name"], ctx=ast.Load()), args=arm["args"], keywords=arm["keywords"])
            ba, bb = agree.bind_call(mk(fast), [x[0] for x in fa]), agree.bind_call(mk(gen), [x[0] for x in fb])
        if ba is None or bb is None:
            ok = None if ok else ok
            why.append("argument lists of the two arms are written differently and cannot be matched to the signatures")
        else:
            diff = [f_ for f_ in sorted(set(ba) | set(bb)) if src(ba.get(f_)) != src(bb.get(f_))]
            # a knot array may legitimately differ between the arms (compact description / knot sequence of the same basis): the family
            # analysis decides these; every other parameter must receive the same actual
            kn = [f_ for f_ in diff if _roles(q).get(f_, "").endswith(".knots")]
            kn_verdicts = [fam_knots.get((arm["name"], f_), (None, ""))[0] for f_ in kn for arm in (fast, gen)]
            rest = [f_ for f_ in diff if f_ not in kn]
            text = "the two families receive different arguments: " + ", ".join(
                f"`{f_}` <- `{src(ba.get(f_))}` / `{src(bb.get(f_))}`" for f_ in diff)
            # ASSUMPTION of VIOLATED: a parameter that both kernels declare under the same name has the same role in both, so different
            # actuals cannot both be right.  Only a knot array proved wrong by the family analysis is reported here; any other textual
            # difference (a coercion on one arm, a default spelled out) is left to the role rules E2 of each arm: UNDECIDED here.
            if any(v is False for v in kn_verdicts):
                ok = False
                why.append(text)
            elif rest:
                ok = None if ok else ok
                why.append(text + " (whether both are right for their routine is decided arm by arm, rule E2)")
            elif any(v is None for v in kn_verdicts):
                ok = None if ok else ok
                why.append(text + " (knot arrays whose content on each kind of space is not followed)")
    if fa is None or fb is None:
        ok = None if ok else ok
        why.append("signature of an evaluator not found")
    elif [x[0] for x in fa] != [x[0] for x in fb] or [x[1] for x in fa] != [x[1] for x in fb]:
        # the parameter list of a kernel is a contract with ITS callers only; the two families may legitimately declare different lists
        ok = None if ok else ok
        why.append(f"signatures of the pair differ: {fa} vs {fb} (each arm is compared with its own routine by rule E2)")
    chk.ob("E1-dispatch", node, label, ok, "matched cu_/nu_ pair, identical arguments, agreeing signatures" if ok else "; ".join(why),
           file=U.SPLINES, func=q)
    # the test
    own = ("self._basis.cubic_uniform",) if q.startswith("Spline1D") else ("self._basis1.cubic_uniform", "self._basis2.cubic_uniform")
    ts = src(test)
    bad = None
    # ASSUMPTION of VIOLATED: the test does not denote "this basis is cubic uniform".  A test that the family analysis resolves (through
    # properties, aliases, stored flags) to exactly that HOLDS whatever it is called; a literal constant, or an attribute the analysis
    # resolves to ANOTHER stored fact of the basis (its periodicity), is wrong; an attribute that is merely not resolved is UNDECIDED.
    own_test = ts in own or ts.replace("._cubic_uniform_splines", ".cubic_uniform") in own
    if not own_test and fam_test is not True:
        if isinstance(test, ast.Constant):
            bad = f"the family is chosen by the constant `{ts}`: one family is evaluated with the other family's routine"
        elif fam_test is False:
            bad = fam_test_text
        elif fm is not None and fm.ok and isinstance(test, ast.Attribute) and src(test.value) in fm.bases:
            alts = fm.alts(test)
            if len(alts) == 1 and not alts[0][0] and src(alts[0][1]) in [fm.per.get(B_) for B_ in fm.bases]:
                bad = (f"the fast path is chosen by `{ts}`, the periodicity of the basis, not by its family: a basis that stores "
                       "(xmin, xmax, dx, ncells) instead of a knot vector can reach the general routine, or the reverse")
    chk.pat("E1-dispatch-test", node, ts, own_test or (bad is None and fam_test is True),
            "the fast path is taken iff the spline's own basis is cubic uniform" if own_test else fam_test_text, bad,
            file=U.SPLINES, func=q, nontrivial=False)
    # argument roles (through the kernel's own signature: positional or keyword)
    for arm in (fast, gen):
        sig = sigs.get(arm["name"])
        if sig is None:
            chk.ob("E2-argument-role", node, f"{q}: {arm['name']}(...)", None, "signature of the evaluator not found", file=U.SPLINES, func=q)
            continue
        formals = [x[0] for x in sig]
        defaults = {x[0] for x in sig if x[1] is not None}
        fake = ast.Call(func=ast.Name(id=arm["name"], ctx=ast.Load()), args=arm["args"], keywords=arm["keywords"])
        if any(isinstance(a_, ast.Starred) for a_ in arm["args"]) or any(k_.arg is None for k_ in arm["keywords"]):
            chk.ob("E2-argument-role", node, f"{q}: {arm['name']}(...)", None, "the call passes star arguments: which parameter receives "
                   "which value is not followed", file=U.SPLINES, func=q)
            continue
        b = agree.bind_call(fake, formals)
        if b is None:
            chk.ob("E2-argument-role", node, f"{q}: {arm['name']}(...)", False, f"the argument list does not fit the signature {formals}: "
                   "the call raises", file=U.SPLINES, func=q)
            continue
        # ASSUMPTION of every VIOLATED verdict of the role rules: the NAME of a parameter of the kernel says what the kernel does with it
        # (`knots`/`kts1` is searched, `deg1` is the degree of the first dimension, `x` goes with `kts1`, `der2` with the second dimension,
        # `coeffs` is contracted).  That is established semantically by rule E4: its specification is written over exactly these names, so
        # when E4 holds for the kernel the names carry these roles.  When E4 is not established for it, a mismatch is UNDECIDED.
        named_roles = _e4_holds(chk, arm["name"])
        roles = _roles(q)
        inv = {v: k for k, v in roles.items()}
        wrong, unknown = [], []
        for f_, want in roles.items():
            if f_ not in b:
                if f_ in formals and f_ not in defaults:
                    wrong.append(f"parameter `{f_}` receives nothing")
                else:
                    unknown.append(f"`{f_}` is not bound by the call")
                continue
            got = src(b[f_])
            # private spellings of the same attribute
            got = re.sub(r"\._(knots|degree)$", r".\1", got)
            got = "self._coeffs" if got == "self.coeffs" else got
            fv = fam_knots.get((arm["name"], f_))
            if fv is not None and fv[0] is True:
                continue            # on every kind of space this arm is taken for, the parameter receives the knot array of its basis
            if fv is not None and fv[0] is False:
                wrong.append(fv[1])
                continue
            if got == want:
                continue
            m_ = re.fullmatch(r"self\._basis(\d?)\.(\w+)", got)
            if got in inv:
                wrong.append(f"parameter `{f_}` receives `{got}`, which is the `{inv[got]}` of this spline")
            elif m_ and m_.group(2) in ("knots", "degree", "ncells", "nbasis", "breaks", "greville", "periodic", "cubic_uniform", "integrals"):
                wrong.append(f"parameter `{f_}` receives `{got}` instead of `{want}`")
            else:
                unknown.append(f"`{f_}` <- `{got}`")
        site.setdefault("coeffs_actuals", {})[arm["name"]] = src(b["coeffs"]) if "coeffs" in b else None
        if wrong and not named_roles:
            chk.ob("E2-argument-role", node, f"{q}: knots/degree/coeffs -> {arm['name']}", None,
                   "; ".join(wrong) + f" - but what `{arm['name']}` does with each of its parameters was not established (rule E4 does not hold "
                   "for it): not decided", file=U.SPLINES, func=q)
        else:
            chk.pat("E2-argument-role", node, f"{q}: knots/degree/coeffs -> {arm['name']}", not wrong and not unknown,
                    "knots, degree and coefficients of this spline, each dimension in its own place",
                    ("; ".join(wrong) + ": the spline is evaluated with another dimension's knots/degree or another array") if wrong else None,
                    file=U.SPLINES, func=q)
        # evaluation points and derivative orders keep their places
        entry = [a.arg for a in fn.args.args[1:]]
        pts = [p for p in entry if p in ("x", "x1", "x2")]
        ders = [p for p in entry if p.startswith("der")]
        kp = [f_ for f_ in formals if f_ in ("x", "y", "X", "Y")][:len(pts)]
        kd = [f_ for f_ in formals if f_.startswith("der")]
        verdict, msg = True, "the kernel receives the caller's points, in order"
        for want, f_ in zip(pts, kp):
            a = b.get(f_)
            if a is None:
                verdict, msg = (False if f_ not in defaults else None), f"point parameter `{f_}` receives nothing"
                break
            c = flow.classify(a)
            if c == "same":
                if isinstance(a, ast.Name) and a.id in pts and a.id != want:
                    verdict, msg = False, f"point parameter `{f_}` receives `{a.id}` instead of `{want}`: the two coordinates are exchanged"
                    break
                continue
            if c == "other":
                verdict, msg = None, f"point parameter `{f_}` receives `{src(a)[:50]}`, which is not computed from the caller's point"
            else:
                verdict, msg = c[0], c[1] + MOVED_WHY
            break
        if verdict is False and not named_roles:
            verdict, msg = None, msg + f" - but the roles of the parameters of `{arm['name']}` were not established (rule E4 does not hold for it)"
        chk.ob("E2-evaluation-point", node, f"{q}: points {pts} -> {arm['name']}", verdict, msg, file=U.SPLINES, func=q)
        okd, msgd = True, "derivative orders keep their dimension"
        for want, f_ in zip(ders, kd):
            a = b.get(f_)
            if a is None:
                continue
            if isinstance(a, ast.Name) and a.id == want:
                continue
            if isinstance(a, ast.Name) and a.id in ders:
                okd, msgd = False, f"`{f_}` receives `{a.id}`: the derivative is taken along the other dimension"
            else:
                okd, msgd = None, f"`{f_}` receives `{src(a)[:40]}`"
            break
        if okd is False and not named_roles:
            okd, msgd = None, msgd + f" - but the roles of the parameters of `{arm['name']}` were not established (rule E4 does not hold for it)"
        chk.ob("E2-argument-role", node, f"{q}: derivative orders -> {arm['name']}", okd, msgd, file=U.SPLINES, func=q, nontrivial=False)


def _e4_holds(chk, kernel):
    """rule E4 was run for this kernel and holds for every combination of derivative orders"""
    from ..core import HOLDS
    obs = [o for o in chk.obs if o.rule == "E4-evaluator" and o.func == kernel]
    return bool(obs) and all(o.status == HOLDS for o in obs)


def _module_tables(mod):
    """module-level tables of routines selected by a flag: NAME = {False: f, True: g} / {False: (f1, f2), True: (g1, g2)} / (f, g)
    -> {NAME: {False: expr, True: expr}}"""
    out = {}
    for st in mod.tree.body:
        if not (isinstance(st, ast.Assign) and len(st.targets) == 1 and isinstance(st.targets[0], ast.Name)):
            continue
        v = st.value
        if isinstance(v, ast.Dict) and len(v.keys) == 2 and all(isinstance(k, ast.Constant) and k.value in (True, False, 0, 1) for k in v.keys):
            d = {bool(k.value): x for k, x in zip(v.keys, v.values)}
            if set(d) == {True, False}:
                out[st.targets[0].id] = d
        elif isinstance(v, (ast.Tuple, ast.List)) and len(v.elts) == 2 and all(
                isinstance(x, ast.Name) or (isinstance(x, (ast.Tuple, ast.List)) and all(isinstance(y, ast.Name) for y in x.elts)) for x in v.elts):
            out[st.targets[0].id] = {False: v.elts[0], True: v.elts[1]}
    return out


def resolve_dispatch_tables(mod, body):
    """a routine taken from a two-entry table by a flag (`f = TABLE[bool(flag)]`, `f, g = TABLE[flag]`, `TABLE[flag][0](...)`) reads as the
    conditional expression `(TABLE[True] if flag else TABLE[False])`: dict dispatch and if/else dispatch look alike (no statement is
    executed; the table must be a module-level literal that nothing else assigns)"""
    tables = _module_tables(mod)
    if not tables:
        return body
    written = {src(t.value) for st in ast.walk(mod.tree) if isinstance(st, (ast.Assign, ast.AugAssign, ast.Delete))
               for t in (st.targets if isinstance(st, (ast.Assign, ast.Delete)) else [st.target]) if isinstance(t, ast.Subscript)}
    tables = {k: v for k, v in tables.items() if k not in written}

    def flag(e):
        while isinstance(e, ast.Call) and src(e.func) in ("bool", "int") and len(e.args) == 1 and not e.keywords:
            e = e.args[0]
        return e

    def lookup(e):
        """TABLE[key] or TABLE[key][k] -> conditional expression, or None"""
        k = None
        if isinstance(e, ast.Subscript) and isinstance(e.slice, ast.Constant) and isinstance(e.slice.value, int) and \
                isinstance(e.value, ast.Subscript):
            k, e = e.slice.value, e.value
        if isinstance(e, ast.Subscript) and isinstance(e.value, ast.Name) and e.value.id in tables:
            t = tables[e.value.id]
            a, b = t[True], t[False]
            if k is not None:
                if not all(isinstance(x, (ast.Tuple, ast.List)) and -len(x.elts) <= k < len(x.elts) for x in (a, b)):
                    return None
                a, b = a.elts[k], b.elts[k]
            return ast.IfExp(test=clone(flag(e.slice)), body=clone(a), orelse=clone(b))
        return None

    class T(ast.NodeTransformer):
        def __init__(self):
            self.env = {}

        def visit_Assign(self, st):
            self.generic_visit(st)
            if len(st.targets) == 1:
                t, got = st.targets[0], lookup(st.value)
                if got is None and isinstance(st.value, ast.IfExp):
                    got = st.value if isinstance(st.value.body, (ast.Name, ast.Tuple)) else None
                if got is not None and isinstance(t, ast.Name) and isinstance(got.body, ast.Name):
                    self.env[t.id] = got
                    return st
                if got is not None and isinstance(t, ast.Tuple) and isinstance(got.body, (ast.Tuple, ast.List)) and \
                        isinstance(got.orelse, (ast.Tuple, ast.List)) and len(got.body.elts) == len(got.orelse.elts) == len(t.elts):
                    for k, el in enumerate(t.elts):
                        if isinstance(el, ast.Name):
                            self.env[el.id] = ast.IfExp(test=clone(got.test), body=clone(got.body.elts[k]), orelse=clone(got.orelse.elts[k]))
                    return st
                for x in ast.walk(t):
                    if isinstance(x, ast.Name):
                        self.env.pop(x.id, None)
            return st

        def visit_Call(self, c):
            self.generic_visit(c)
            f = c.func
            new = None
            if isinstance(f, ast.Name) and f.id in self.env and f.id not in rebound_local:
                new = clone(self.env[f.id])
            elif isinstance(f, ast.Subscript):
                new = lookup(f)
                if new is not None and not isinstance(new.body, ast.Name):
                    new = None
            if new is not None:
                c.func = ast.copy_location(new, f)
                ast.fix_missing_locations(c)
            return c
    cnt = {}
    for st in body:
        for n in ast.walk(st):
            if isinstance(n, ast.Name) and isinstance(n.ctx, ast.Store):
                cnt[n.id] = cnt.get(n.id, 0) + 1
    rebound_local = {n for n, c_ in cnt.items() if c_ > 1}
    tr = T()
    return [tr.visit(st) for st in body]


def find_sites(body):
    """places of a specialised entry point where a kernel is called:
    -> (sites, loose) ; loose = evaluator calls that no family test selects"""
    sites, loose, seen = [], [], set()
    by_if = {}
    def exprs_guarded(n, guards):
        """expression nodes of a statement with the conditional expressions they sit under"""
        for c in ast.iter_child_nodes(n):
            if isinstance(c, ast.stmt):
                continue
            yield c, guards
            if isinstance(c, ast.IfExp):
                yield c.test, guards
                yield from exprs_guarded(c.test, guards)
                for arm, pol in ((c.body, True), (c.orelse, False)):
                    yield arm, guards + ((c.test, pol, c),)
                    yield from exprs_guarded(arm, guards + ((c.test, pol, c),))
            else:
                yield from exprs_guarded(c, guards)

    for st, guards0 in walk_guarded(body):
        for e, guards in exprs_guarded(st, guards0):
            if not isinstance(e, ast.Call):
                continue
            if isinstance(e.func, ast.IfExp) and (_evaluator_name(e.func.body) or _evaluator_name(e.func.orelse)):
                t, sw = _polarity(e.func.test)
                a, b = (e.func.body, e.func.orelse) if not sw else (e.func.orelse, e.func.body)
                if not (isinstance(a, ast.Name) and isinstance(b, ast.Name)):
                    loose.append((e, "one arm of the conditional expression is not a routine name"))
                    continue
                arm = lambda n_: {"name": n_.id, "args": e.args, "keywords": e.keywords}
                sites.append({"node": e, "test": t, "fast": arm(a), "general": arm(b)})
            elif _evaluator_name(e.func):
                g = [(t, pol, node) for t, pol, node in guards if any(isinstance(x, ast.Attribute) and "cubic_uniform" in x.attr
                                                                      for x in ast.walk(t)) or isinstance(t, ast.Constant)]
                if not g:
                    g = [x for x in guards if not (isinstance(x[0], ast.Call) and src(x[0].func) in ("hasattr", "isinstance"))][-1:]
                if not g:
                    loose.append((e, f"`{e.func.id}` is called without any test of the family of the basis"))
                    continue
                t, pol, node = g[-1]
                tgt = src(st.targets[0]) if isinstance(st, ast.Assign) else ("return" if isinstance(st, ast.Return) else None)
                by_if.setdefault(id(node), {"node": node, "test": t, True: [], False: []})[pol].append((e, tgt))
    for d in by_if.values():
        t, sw = _polarity(d["test"])
        fa, ge = (d[True], d[False]) if not sw else (d[False], d[True])
        if len(fa) == 1 and len(ge) == 1:
            arm = lambda c: {"name": c.func.id, "args": c.args, "keywords": c.keywords}
            sites.append({"node": d["node"], "test": t, "fast": arm(fa[0][0]), "general": arm(ge[0][0]), "targets": (fa[0][1], ge[0][1])})
        elif not fa or not ge:
            c = (fa or ge)[0][0]
            loose.append((c, f"`{c.func.id}` is the only evaluator selected by `{src(d['test'])}`: the other family has no routine on the other arm"))
        else:
            loose.append((d["node"], f"{len(fa)} / {len(ge)} evaluator calls on the two arms of `{src(d['test'])}`"))
    return sites, loose


def _collocation_arms_flow(cm, arm_f, arm_g):
    """data flow of the two arms of collocation_matrix, whatever the names and the containers: the span search of a family receives the
    description of the knots of that family and the evaluation point of the row, and its result goes to the basis routine of the same family.
    -> (True, None) | (False, diagnosis) | None when the arms are not of this shape"""
    formals = [a.arg for a in cm.args.args]
    if len(formals) < 3:
        return None
    # the positions of the arguments of the four low-level routines have the roles read below only for their reference parameter lists
    for r_ in ("cu_find_span", "cu_basis_funs", "nu_find_span", "nu_basis_funs"):
        if not same_parameter_roles(r_):
            return None
    knots_f = "knots" if "knots" in formals else None
    degree_f = "degree" if "degree" in formals else None
    if knots_f is None or degree_f is None:
        return None
    # names unpacked from the compact description: position in (xmin, xmax, dx, ncells)
    pos = {}
    for st in ast.walk(cm):
        if isinstance(st, ast.Assign) and isinstance(st.targets[0], ast.Tuple) and len(st.targets[0].elts) == 4 and src(st.value) == knots_f:
            for k, el in enumerate(st.targets[0].elts):
                if isinstance(el, ast.Name):
                    pos[el.id] = k
    for st in ast.walk(cm):
        if isinstance(st, ast.Assign) and isinstance(st.targets[0], ast.Name) and isinstance(st.value, ast.Call) and src(st.value.func) == "int" \
                and len(st.value.args) == 1 and isinstance(st.value.args[0], ast.Name) and pos.get(st.value.args[0].id) == 3:
            pos[st.targets[0].id] = 3
        if isinstance(st, ast.Assign) and isinstance(st.targets[0], ast.Name) and isinstance(st.value, ast.Subscript) and src(st.value.value) == knots_f \
                and isinstance(st.value.slice, ast.Constant) and st.value.slice.value in (0, 1, 2, 3):
            pos[st.targets[0].id] = st.value.slice.value

    def point_of(call_st, arm):
        """the element variable of the loop over the evaluation points that encloses the statement"""
        for st in arm:
            for lp in ast.walk(st):
                if isinstance(lp, ast.For) and any(x is call_st for x in ast.walk(lp)):
                    t = lp.target
                    if isinstance(t, ast.Tuple) and len(t.elts) == 2 and isinstance(t.elts[1], ast.Name) and src(lp.iter).startswith("enumerate("):
                        return t.elts[1].id
                    if isinstance(t, ast.Name) and src(lp.iter) in formals:
                        return t.id
        return None

    def stmts_with(arm, name):
        out = []
        for st in arm:
            for x in ast.walk(st):
                if isinstance(x, (ast.Assign, ast.Expr)) and isinstance(x.value, ast.Call) and src(x.value.func) == name:
                    out.append(x)
        return out
    names4 = ["xmin", "xmax", "dx", "ncells"]
    # cubic-uniform arm
    fs, bs = stmts_with(arm_f, "cu_find_span"), stmts_with(arm_f, "cu_basis_funs")
    if len(fs) != 1 or len(bs) != 1 or not isinstance(fs[0], ast.Assign):
        return None
    c1, c2 = fs[0].value, bs[0].value
    if len(c1.args) != 5 or len(c2.args) != 3 or c1.keywords or c2.keywords:
        return None
    x_ = point_of(fs[0], arm_f)
    for k, want in ((0, 0), (1, 1), (2, 2), (4, 3)):
        a = c1.args[k]
        got = pos.get(a.id) if isinstance(a, ast.Name) else None
        if got is None:
            return None
        if got != want:
            return False, (f"`{src(c1)[:70]}`: the parameter `{names4[want]}` of the uniform span search receives the entry `{names4[got]}` of the "
                           "compact knot description (xmin, xmax, dx, ncells): the rows of the matrix are not the basis values at the points")
    if x_ is None or not (isinstance(c1.args[3], ast.Name) and c1.args[3].id == x_):
        return None
    t = fs[0].targets[0]
    if not (isinstance(t, ast.Tuple) and len(t.elts) == 2):
        return None
    if src(c2.args[0]) != src(t.elts[0]) or src(c2.args[1]) != src(t.elts[1]):
        if src(c2.args[0]) == src(t.elts[1]) and src(c2.args[1]) == src(t.elts[0]):
            return False, f"`{src(c2)[:60]}` receives the span and the offset of `{src(fs[0])[:60]}` in exchanged places"
        return None
    # general arm
    fs, bs = stmts_with(arm_g, "nu_find_span"), stmts_with(arm_g, "nu_basis_funs")
    if len(fs) != 1 or len(bs) != 1 or not isinstance(fs[0], ast.Assign):
        return None
    c1, c2 = fs[0].value, bs[0].value
    if len(c1.args) != 3 or len(c2.args) != 5 or c1.keywords or c2.keywords:
        return None
    x_ = point_of(fs[0], arm_g)
    if x_ is None or [src(a) for a in c1.args] != [knots_f, degree_f, x_]:
        return None
    if [src(a) for a in c2.args[:3]] != [knots_f, degree_f, x_] or src(c2.args[3]) != src(fs[0].targets[0]):
        return None
    return True, None


_CONTAINER_MAKERS = ("dict", "list", "set", "defaultdict", "OrderedDict", "collections.defaultdict", "collections.OrderedDict", "deque",
                     "collections.deque")
_IN_PLACE = {"update": "table", "setdefault": "table", "__setitem__": "table", "append": "grow", "extend": "grow", "insert": "grow",
             "add": "grow", "pop": "shrink", "popitem": "shrink", "clear": "shrink", "remove": "shrink"}


def _fresh_container(e):
    return isinstance(e, (ast.Dict, ast.List, ast.Set, ast.DictComp, ast.ListComp, ast.SetComp)) or \
        (isinstance(e, ast.Call) and src(e.func) in _CONTAINER_MAKERS)


def state_shared_between_instances(mod, cls_name, entry_points, consequence=None):
    """Per-instance state kept in ONE object shared by all instances of a class: a mutable container assigned in the class body (or a
    mutable default value of a constructor parameter) that `__init__` fills IN PLACE with a content depending on the constructor's
    arguments.  Every construction then overwrites what the instances built before see ("the last constructed one wins").
    -> [(verdict False | None, node, text)]; nothing when no such state exists.

    ASSUMPTIONS of a False verdict, all checked here:
      (1) the name is bound in the class body / as a default value to a freshly made container, and NO method of the class ever binds it
          on the instance (`self.NAME = ...`, setattr, __dict__ - any mention of the name as a string counts), so `self.NAME` IS the
          shared object;
      (2) `__init__` changes the container in place (`self.NAME.update(...)`, `self.NAME[k] = v`, ...) under a key that does not depend
          on the instance with a value that does (arguments of the constructor, `self`), so two instances built with different arguments
          leave different contents;
      (3) an entry point reads the container through the same name (directly, or in a method / property of the class it uses)."""
    out = []
    try:
        cls = mod.cls(cls_name)
        methods = mod.methods(cls_name)
    except AnalysisError:
        return out
    init = methods.get("__init__")
    if init is None:
        return out
    shared = {}
    for st in cls.body:
        if isinstance(st, ast.Assign) and len(st.targets) == 1 and isinstance(st.targets[0], ast.Name) and _fresh_container(st.value):
            shared[st.targets[0].id] = ("class", st)
        elif isinstance(st, ast.AnnAssign) and isinstance(st.target, ast.Name) and st.value is not None and _fresh_container(st.value):
            shared[st.target.id] = ("class", st)
    pos = init.args.posonlyargs + init.args.args
    for a, d in list(zip(pos[len(pos) - len(init.args.defaults):], init.args.defaults)) + \
            [(a, d) for a, d in zip(init.args.kwonlyargs, init.args.kw_defaults) if d is not None]:
        if _fresh_container(d):
            shared[a.arg] = ("default", d)
    if not shared:
        return out
    params = {a.arg for a in pos + init.args.kwonlyargs if a.arg != "self"}
    # locals of the constructor that depend on its arguments (closure over the assignments, any order)
    tainted, changed = set(params), True
    while changed:
        changed = False
        for st in ast.walk(init):
            tv = None
            if isinstance(st, ast.Assign):
                tv = (st.targets, st.value)
            elif isinstance(st, (ast.AugAssign, ast.AnnAssign)) and st.value is not None:
                tv = ([st.target], st.value)
            elif isinstance(st, ast.For):
                tv = ([st.target], st.iter)
            elif isinstance(st, ast.NamedExpr):
                tv = ([st.target], st.value)
            if tv is None:
                continue
            if any(isinstance(x, ast.Name) and (x.id in tainted or x.id == "self") for x in ast.walk(tv[1])):
                for t in tv[0]:
                    for x in ast.walk(t):
                        if isinstance(x, ast.Name) and isinstance(x.ctx, ast.Store) and x.id not in tainted:
                            tainted.add(x.id)
                            changed = True

    def access(e, name, kind):
        """does the expression denote the shared container `name`?"""
        if kind == "default":
            return isinstance(e, ast.Name) and e.id == name
        return isinstance(e, ast.Attribute) and e.attr == name and src(e.value) in ("self", "type(self)", "self.__class__", cls_name, "cls")

    def inst_dep(e, name, kind):
        """names of the constructor's arguments (or `self`) the expression depends on"""
        skip = {id(y) for x in ast.walk(e) if access(x, name, kind) for y in ast.walk(x)}
        return {x.id for x in ast.walk(e) if isinstance(x, ast.Name) and id(x) not in skip and (x.id in tainted or x.id == "self")}

    def module_display(e):
        if isinstance(e, ast.Name):
            ds = [st for st in mod.tree.body if isinstance(st, ast.Assign) and len(st.targets) == 1 and src(st.targets[0]) == e.id]
            if len(ds) == 1:
                return src(ds[0].value)
        return None
    for name, (kind, where) in shared.items():
        # (1) never bound on the instance
        rebound = None
        for mname, m in methods.items():
            for n in ast.walk(m):
                if isinstance(n, ast.Attribute) and n.attr == name and isinstance(n.ctx, (ast.Store, ast.Del)) and kind == "class":
                    rebound = f"`{src(n)}` is bound in `{mname}`"
                if isinstance(n, ast.Constant) and n.value == name:
                    rebound = f"the name is used as a string in `{mname}` (setattr / __dict__ ?)"
                if kind == "default" and isinstance(n, ast.Name) and n.id == name and isinstance(n.ctx, ast.Store) and m is init:
                    rebound = f"the parameter is re-bound in `{mname}`"
        # (2) changed in place by the constructor
        events = []          # (node, verdict, text)
        for n in ast.walk(init):
            if isinstance(n, ast.Call) and isinstance(n.func, ast.Attribute) and n.func.attr in _IN_PLACE and access(n.func.value, name, kind):
                how = _IN_PLACE[n.func.attr]
                if how != "table":
                    events.append((n, None, f"`{src(n)[:70]}` changes the shared container in place"))
                    continue
                pairs = None
                if n.func.attr in ("setdefault", "__setitem__") and len(n.args) == 2:
                    pairs = [(n.args[0], n.args[1])]
                elif n.func.attr == "update" and len(n.args) == 1 and not n.keywords and isinstance(n.args[0], ast.Dict) and \
                        all(k is not None for k in n.args[0].keys):
                    pairs = list(zip(n.args[0].keys, n.args[0].values))
                elif n.func.attr == "update" and not n.args and n.keywords and all(k.arg for k in n.keywords):
                    pairs = [(ast.Constant(value=k.arg), k.value) for k in n.keywords]
                if pairs is not None:
                    events += [(n, *pair_verdict(k, v, name, kind, inst_dep)) for k, v in pairs]
                elif n.func.attr == "update" and len(n.args) == 1 and isinstance(n.args[0], ast.IfExp):
                    a = n.args[0]
                    d = inst_dep(a.test, name, kind)
                    da, db = module_display(a.body), module_display(a.orelse)
                    if d and da is not None and db is not None and da != db:
                        events.append((n, False, f"`{src(n)[:90]}` copies one of two different tables into it according to `{src(a.test)}`, "
                                       f"which depends on the constructor's {sorted(d)}"))
                    elif not d and not inst_dep(a, name, kind):
                        pass
                    else:
                        events.append((n, None, f"`{src(n)[:90]}` changes the shared container in place; whether the content differs from "
                                       "one instance to the next is not followed"))
                elif n.args or n.keywords:
                    if inst_dep(n, name, kind):
                        events.append((n, None, f"`{src(n)[:90]}` changes the shared container in place; whether the content differs from "
                                       "one instance to the next is not followed"))
            if isinstance(n, (ast.Assign, ast.AugAssign)):
                for t in (n.targets if isinstance(n, ast.Assign) else [n.target]):
                    if isinstance(t, ast.Subscript) and access(t.value, name, kind):
                        events.append((n, *pair_verdict(t.slice, n.value, name, kind, inst_dep)))
        events = [e for e in events if e[1] is not True]
        if not events:
            continue
        # (3) read where the instance is used
        used_by = {}
        for mname, m in methods.items():
            if m is init:
                continue
            if any(access(x, name, kind) and isinstance(getattr(x, "ctx", None), ast.Load) for x in ast.walk(m)):
                used_by[mname] = m
        readers = [e for e in entry_points if e in used_by or (e in methods and any(
            isinstance(x, ast.Attribute) and src(x.value) == "self" and x.attr in used_by for x in ast.walk(methods[e])))]
        if kind == "default" and not used_by:
            # a default container is reached later only if the constructor keeps it
            kept = [n for n in ast.walk(init) if isinstance(n, ast.Assign) and isinstance(n.value, ast.Name) and n.value.id == name]
            if not kept:
                continue
            readers = []
        sure = [e for e in events if e[1] is False]
        origin = (f"`{name}` is bound once, in the body of class {cls_name} (`{src(where)[:60]}`)" if kind == "class" else
                  f"the default value `{src(where)[:40]}` of the parameter `{name}` of {cls_name}.__init__ is made once, when the function is defined")
        if sure and rebound is None and readers:
            n, _v, text = sure[0]
            out.append((False, n, f"{origin}: ONE object shared by all instances, and no method binds `{name}` on the instance. {text}: "
                        f"every construction overwrites the content every existing {cls_name} sees - the last constructed one wins. "
                        f"`{cls_name}.{readers[0]}` reads it: " + (consequence or
                        "a spline whose basis is of the other family than the most "
                        "recently constructed spline is evaluated by the other family's kernel on its own knot array ((xmin, xmax, dx, ncells) "
                        "read as knots or the reverse)")))
        else:
            n, _v, text = (sure or events)[0]
            why = rebound or ("no entry point was found to read it" if not readers else "whether instances leave different contents is not followed")
            out.append((None, n, f"{origin}; {text}; not established as a defect: {why}"))
    return out


def pair_verdict(k, v, name, kind, inst_dep):
    """one `container[k] = v` of the constructor -> (True harmless | False later instances overwrite | None, text)"""
    dk, dv = inst_dep(k, name, kind), inst_dep(v, name, kind)
    if not dv:
        return True, ""
    if not dk:
        return False, (f"`{src(k)[:30]}: {src(v)[:60]}` stores under a key that is the same for every instance a value that depends on the "
                       f"constructor's {sorted(dv)}")
    if dv <= dk:
        return True, ""          # a memo: everything the value depends on is part of the key
    return None, f"`{src(k)[:30]}: {src(v)[:60]}`: the value depends on {sorted(dv - dk)}, which the key does not contain"


def dispatch_and_wrap(chk):
    KERNEL_COEFFS.clear()
    smod = chk.mod(U.SPLINES)
    cu, nu = chk.mod(U.CU), chk.mod(U.NU)
    load_routine_formals(chk)
    sigs = {}
    for m in (cu, nu):
        for q, f in m.functions().items():
            sigs[q] = agree.signature(f)
    fms, sites2d = {}, []
    for q in ("Spline1D.eval", "Spline1D.eval_vector", "Spline2D.eval", "Spline2D.eval_vector"):
        fn = smod.func(q)
        chk.functions.add(f"{U.SPLINES}:{q}")
        cls_name, meth = q.split(".")
        sp_ = Specialiser(smod, cls_name)
        body = resolve_dispatch_tables(smod, sp_.run(meth))
        if cls_name not in fms:
            fms[cls_name] = FamilyModel(smod, cls_name)
        # the evaluation points reach the kernels as given: the spline is evaluated AT x, on the closed domain
        pts = [a.arg for a in fn.args.args if a.arg in ("x", "x1", "x2")]
        flow = PointFlow(pts, smod)
        moved = None
        for st, g_ in walk_guarded(body):
            hit = flow.assign(st)
            if hit is not None and hit[0] is False:
                # ASSUMPTION of VIOLATED: the replacement is applied to points of the closed domain.  Under a test that reads the point
                # (`if x > xmax: x = fold(x)`) it may concern points outside the domain only: UNDECIDED.
                tested = [t for t, _pol, _n in g_ if (flow.same | set(flow.derived) | set(pts)) & _loads(t)]
                if tested:
                    hit = (None, hit[1] + f", under the test `{src(tested[-1])[:50]}` of the point itself: which points it concerns is not followed")
                    if isinstance(st, ast.Assign):
                        for t_ in st.targets:
                            if isinstance(t_, ast.Name) and t_.id in flow.derived:
                                flow.derived[t_.id] = hit
            if hit is not None and moved is None:
                moved = (st, hit)
        chk.ob("E2-evaluation-point", moved[0] if moved else fn, f"{q}: evaluation points {pts} are not replaced",
               True if not moved else moved[1][0],
               "the points handed to the kernels are the caller's points" if not moved else
               f"`{src(moved[0])[:70]}` replaces the evaluation point before the kernel is called ({moved[1][1]})" + MOVED_WHY,
               file=U.SPLINES, func=q)
        sites, loose = find_sites(body)
        for s_ in sites:
            check_site(chk, q, smod, s_, sigs, flow, fn, fms[cls_name])
            for kname, act in s_.get("coeffs_actuals", {}).items():
                KERNEL_COEFFS.setdefault(kname, set()).add(act)
            if cls_name == "Spline2D":
                sites2d.append(s_)
        for node, why in loose:
            # ASSUMPTIONS of VIOLATED ("a kernel of one family is called whatever the family of the basis"): (1) no test at all guards the
            # call (a call selected by a test whose other arm holds no kernel may be completed by other means there: UNDECIDED);
            # (2) the basis still keeps (xmin, xmax, dx, ncells) as the knots of a cubic-uniform space and a knot sequence otherwise
            # (read off the constructor of BSplines by the family model); (3) the name prefix of the kernel says which of the two it reads
            # (rule E4 holds for it).
            unconditional = "without any test" in why
            fm_ = fms[cls_name]
            kinds_ok = fm_.ok and fm_.stored_kind(True) == "compact" and fm_.stored_kind(False) == "full"
            kname = node.func.id if isinstance(node, ast.Call) and isinstance(node.func, ast.Name) else None
            sure = unconditional and kinds_ok and kname is not None and _e4_holds(chk, kname)
            chk.ob("E1-dispatch", node, f"{q}: {src(node)[:50]}", False if sure else None,
                   why + (": a cubic-uniform basis stores (xmin, xmax, dx, ncells) in place of its knot vector, so the routine of the other "
                          "family reads that array wrongly" if sure else
                          (" (what the bases store as their knots / what this kernel reads was not established)" if unconditional else "")),
                   file=U.SPLINES, func=q)
        if not sites and not loose:
            chk.ob("E1-dispatch", fn, f"{q}: hand-over to a cu_/nu_ evaluator", None,
                   "no call of a spline evaluator found in this entry point (own methods written back: " + str(sp_.inlined) + "; not followed: " +
                   str(sp_.opaque) + ")", file=U.SPLINES, func=q)
    # the kernels / state an entry point uses are the instance's own
    for cls_name in ("Spline1D", "Spline2D"):
        for verdict, node, text in state_shared_between_instances(smod, cls_name, ("eval", "eval_vector")):
            chk.ob("E1-dispatch", node, f"{cls_name}: state used by eval / eval_vector is the instance's own", verdict, text,
                   file=U.SPLINES, func=f"{cls_name}.__init__")
    # Spline2D requires both bases of one family
    init2 = smod.func("Spline2D.__init__")
    fam = [n for n in ast.walk(init2) if isinstance(n, ast.Attribute) and n.attr in ("cubic_uniform", "_cubic_uniform_splines")]

    def both(a, b):
        return {src(a), src(b)} in ({"basis1.cubic_uniform", "basis2.cubic_uniform"}, {"self._basis1.cubic_uniform", "self._basis2.cubic_uniform"})
    ok, bad = False, None
    for n in ast.walk(init2):
        if isinstance(n, ast.Assert) and isinstance(n.test, ast.Compare) and len(n.test.ops) == 1 and \
                isinstance(n.test.ops[0], (ast.Eq, ast.Is)) and both(n.test.left, n.test.comparators[0]):
            ok = True
        if isinstance(n, ast.If) and isinstance(n.test, ast.Compare) and len(n.test.ops) == 1 and \
                isinstance(n.test.ops[0], (ast.NotEq, ast.IsNot)) and both(n.test.left, n.test.comparators[0]) and \
                any(isinstance(x, ast.Raise) for x in n.body):
            ok = True
    mixed_ok = None
    if not ok:
        # no requirement of equal families: then every hand-over must treat each dimension according to its own basis
        verdicts = [v for s_ in sites2d for v in [s_.get("family", (None, {}))[0]] + [x[0] for x in s_.get("family", (None, {}))[1].values()]]
        if sites2d and verdicts and all(v is True for v in verdicts):
            mixed_ok = True
        elif any(v is False for v in verdicts):
            mixed_ok = False
    if mixed_ok:
        ok = True
    if not ok and mixed_ok is False:
        first = next((x[1] for s_ in sites2d for x in s_.get("family", (None, {}))[1].values() if x[0] is False), "")
        bad = ("the constructor accepts two bases of different families (nothing requires them to agree), and the evaluation does not treat "
               "each dimension according to its own basis: " + first)
    elif not ok and not fam:
        # ASSUMPTION of VIOLATED: the whole constructor was read.  The requirement may sit in a helper, a base class or a validation
        # method: when the constructor calls anything that receives the bases or `self` (other than array allocation), or the class has
        # base classes, the absence of a comparison in its own text proves nothing: UNDECIDED.
        try:
            spi = Specialiser(smod, "Spline2D")
            flat_init = [st for st, _g in walk_guarded(spi.run("__init__"))]
        except AnalysisError:
            spi, flat_init = None, []
        mentions = any(isinstance(n, ast.Attribute) and n.attr in ("cubic_uniform", "_cubic_uniform_splines") for st in flat_init for n in ast.walk(st))
        outside = [c for st in flat_init for c in own_exprs(st) if isinstance(c, ast.Call) and
                   not src(c.func).startswith(("np.", "numpy.")) and src(c.func) not in ("isinstance", "len", "tuple", "list", "int", "float") and
                   any(isinstance(a_, ast.Name) and a_.id in ("self", "basis1", "basis2") or src(a_) in ("self._basis1", "self._basis2")
                       for a_ in list(c.args) + [k_.value for k_ in c.keywords] + ([c.func.value] if isinstance(c.func, ast.Attribute) else []))]
        bases_ = smod.cls("Spline2D").bases
        if spi is not None and not mentions and not outside and not spi.opaque and not bases_:
            bad = ("nothing in the constructor compares the families of the two bases: 2-D splines may mix a cubic-uniform and a general "
                   "basis although the evaluation looks at one basis only, and the other dimension is then evaluated by the wrong routine")
    chk.pat("E1-dispatch-test", init2, "assert basis1.cubic_uniform == basis2.cubic_uniform", ok,
            "a 2-D spline dispatches on one basis only, so both bases must be of the same family" if mixed_ok is None else
            "bases of different families are accepted and every hand-over gives each dimension the knot array its routine reads", bad,
            file=U.SPLINES, func="Spline2D.__init__")
    # collocation matrix: span finder and basis routine of one family on each arm
    imod = chk.mod(U.INTERP)
    cm = imod.func("SplineInterpolator1D.collocation_matrix")
    from ..core import contains as _contains
    # which parameter says "cubic uniform": ASSUMPTION of the verdicts below.  Known by its name, or by what the constructor passes to it
    # (`<basis>.cubic_uniform`); never by its position alone.
    cm_formals = [a.arg for a in cm.args.args]
    fam_formal = next((f_ for f_ in cm_formals if "uniform" in f_), None)
    if fam_formal is None:
        for c in ast.walk(imod.func("SplineInterpolator1D.__init__")) if imod.has("SplineInterpolator1D.__init__") else ():
            if isinstance(c, ast.Call) and isinstance(c.func, ast.Attribute) and c.func.attr == "collocation_matrix":
                bb = agree.bind_call(c, [f_ for f_ in cm_formals if f_ != "self"])
                for f_, a_ in (bb or {}).items():
                    if isinstance(a_, ast.Attribute) and a_.attr in ("cubic_uniform", "_cubic_uniform_splines"):
                        fam_formal = f_
    ifs = [x for x in ast.walk(cm) if fam_formal is not None and isinstance(x, ast.If) and src(_polarity(x.test)[0]) == fam_formal]
    ok, bad = None, None
    if len(ifs) == 1:
        t, sw = _polarity(ifs[0].test)
        arm_f, arm_g = (ifs[0].body, ifs[0].orelse) if not sw else (ifs[0].orelse, ifs[0].body)

        def fam_calls(arm, pre):
            return [c for st in arm for c in ast.walk(st) if isinstance(c, ast.Call) and isinstance(c.func, ast.Name) and c.func.id.startswith(pre)]
        mixed = fam_calls(arm_f, "nu_") + fam_calls(arm_g, "cu_")
        arm_cu = _contains(arm_f, "span, offset = cu_find_span(xmin, xmax, dx, x, ncells)\ncu_basis_funs(span, offset, basis)")
        unpack = _contains(arm_f, "xmin, xmax, dx, f_ncells = knots\nncells = int(f_ncells)") or \
            _contains(arm_f, "xmin, xmax, dx, ncells = knots") or _contains(cm, "xmin, xmax, dx, f_ncells = knots\nncells = int(f_ncells)")
        arm_nu = _contains(arm_g, "span = nu_find_span(knots, degree, x)\nnu_basis_funs(knots, degree, x, span, basis)")
        if mixed:
            # ASSUMPTION of VIOLATED: the routine of the other family reads the knot description this arm is selected for (the parameter
            # `knots` itself or values taken from it).  Given a knot array built otherwise (e.g. an explicit uniform sequence) it may be
            # an equivalent way of evaluating the same functions: UNDECIDED.
            from_knots = {"knots"}
            for st_ in ast.walk(cm):
                if isinstance(st_, ast.Assign) and any(isinstance(n_, ast.Name) and n_.id in from_knots for n_ in ast.walk(st_.value)):
                    from_knots |= _name_stores(st_.targets[0]) if len(st_.targets) == 1 else set()
            m0 = mixed[0]
            try:
                acts = _actuals(m0, m0.func.id) if m0.func.id in ROUTINE_FORMALS else []
            except Undecided:
                acts = []
            knot_args = acts[:1] if m0.func.id.startswith("nu_") else (acts[:3] + acts[4:5] if m0.func.id == "cu_find_span" else [])
            reads_knots = any(isinstance(n_, ast.Name) and n_.id in from_knots for a_ in knot_args for n_ in ast.walk(a_))
            ok, bad = (False if reads_knots else None), (
                f"`{src(mixed[0])[:60]}` is a routine of the other family on this arm of the dispatch: the knot array of a "
                "cubic-uniform basis is (xmin, xmax, dx, ncells), the matrix rows are not the basis values" +
                ("" if reads_knots else " - if it is given that array, which is not what its arguments show: not decided"))
        elif arm_cu and arm_nu and unpack:
            ok = True
        elif _collocation_arms_flow(cm, arm_f, arm_g) is not None:
            ok, bad = _collocation_arms_flow(cm, arm_f, arm_g)
        else:
            # same routines, other arguments: a recognised wrong form
            for arm, pre in ((arm_f, "cu_"), (arm_g, "nu_")):
                names = [c.func.id for c in fam_calls(arm, pre)]
                if not any("find_span" in n_ for n_ in names) or not any("basis_funs" in n_ for n_ in names):
                    bad = f"the {pre} arm does not call both the span search and the basis routine of its family ({names}): not followed"
    chk.ob("E1-dispatch", ifs[0] if ifs else cm, "collocation_matrix: cu_/nu_ span + basis", ok,
           "each arm fills row i with the basis values of its own family" if ok else
           (bad or "collocation matrix arms not recognised"), file=U.INTERP,
           func="SplineInterpolator1D.collocation_matrix")
    periodic_unit_vector(chk, smod)


def names_in_expr(e):
    return {n.id for n in ast.walk(e) if isinstance(n, ast.Name)}


def _int_attr(e, table):
    """sympy value of an integer expression over attribute references listed in `table` (canonical source -> symbol)"""
    s_ = src(e)
    if s_ in table:
        return table[s_]
    if isinstance(e, ast.Constant) and isinstance(e.value, int) and not isinstance(e.value, bool):
        return Integer(e.value)
    if isinstance(e, ast.BinOp) and isinstance(e.op, (ast.Add, ast.Sub, ast.Mult)):
        a, b = _int_attr(e.left, table), _int_attr(e.right, table)
        if a is None or b is None:
            return None
        return a + b if isinstance(e.op, ast.Add) else a - b if isinstance(e.op, ast.Sub) else a * b
    if isinstance(e, ast.UnaryOp) and isinstance(e.op, ast.USub):
        a = _int_attr(e.operand, table)
        return None if a is None else -a
    return None


def wrap_done_by_reader(smod):
    """Does a spline class itself copy coefficients onto coefficients (a wrap applied by the READER side: a coefficient setter, a lazy
    synchronisation before evaluation)?  Then a producer that leaves the wrapped entries alone is not wrong by itself.  -> text or None"""
    for cls_ in ("Spline1D", "Spline2D"):
        try:
            ms = smod.methods(cls_)
        except AnalysisError:
            continue
        for mname, m in ms.items():
            for st in ast.walk(m):
                tgts = st.targets if isinstance(st, ast.Assign) else [st.target] if isinstance(st, ast.AugAssign) else []
                for t in tgts:
                    if isinstance(t, ast.Subscript) and src(t.value) in ("self._coeffs", "self.coeffs") and \
                            any(isinstance(n, ast.Attribute) and src(n) in ("self._coeffs", "self.coeffs") for n in ast.walk(st.value)):
                        return f"`{cls_}.{mname}` copies coefficients onto coefficients itself (`{src(st)[:60]}`)"
                if isinstance(st, ast.Call) and src(st.func) in ("np.copyto", "np.put", "np.take") and any("_coeffs" in src(a) for a in st.args):
                    return f"`{cls_}.{mname}` moves coefficients itself (`{src(st)[:60]}`)"
    return None


def readers_take_linear_window(chk, kernels=None):
    """The evaluation kernels read the coefficients c[span - degree + j], j = 0..degree, WITHOUT folding the index: the reason why the last
    `degree` coefficients of a periodic spline must repeat the first ones.  Established by rule E4 for the kernels (run on a private
    check object when this check has not run them)."""
    kernels = kernels or [f"{fam}_{e}" for fam in ("nu", "cu") for e in EVALUATORS]
    have = {o.func for o in chk.obs if o.rule == "E4-evaluator"}
    if not set(kernels) <= have:
        from ..core import Check
        key = id(chk.repo)
        sub = _PRIVATE_E4.get(key)
        if sub is None:
            sub = _PRIVATE_E4[key] = Check(chk.pid, chk.tier)
            sub.repo = chk.repo
        done = {o.func for o in sub.obs if o.rule == "E4-evaluator"}
        for kname in kernels:
            if kname not in have and kname not in done:
                try:
                    check_evaluator(sub, U.CU if kname.startswith("cu_") else U.NU, kname)
                except (AnalysisError, Undecided):
                    return False
        return all(_e4_holds(sub if kname not in have else chk, kname) for kname in kernels)
    return all(_e4_holds(chk, kname) for kname in kernels)


_PRIVATE_E4 = {}


def periodic_unit_vector(chk, smod):
    """BSplines.__getitem__: basis function i of a periodic space carries its wrapped copy"""
    gi = smod.func("BSplines.__getitem__")
    body = Specialiser(smod, "BSplines").run("__getitem__")
    n, p = Symbol("n", integer=True, positive=True), Symbol("p", integer=True, positive=True)
    table = {}
    # the local that holds the new spline
    made = [st.targets[0].id for st, _g in walk_guarded(body) if isinstance(st, ast.Assign) and isinstance(st.targets[0], ast.Name) and
            isinstance(st.value, ast.Call) and src(st.value.func) == "Spline1D" and st.value.args and src(st.value.args[0]) == "self"]
    S = made[0] if len(made) == 1 else "spl"
    COEF = (f"{S}.coeffs", f"{S}._coeffs")
    for recv in (f"{S}.basis", "self", f"{S}._basis"):
        for a in ("ncells", "nbasis", "_ncells", "_nbasis"):
            table[f"{recv}.{a}"] = n                 # on a periodic space nbasis == ncells
        for a in ("degree", "_degree"):
            table[f"{recv}.{a}"] = p
    # locals bound to integers of the space
    ints = {}
    for st, _g in walk_guarded(body):
        if isinstance(st, ast.Assign) and len(st.targets) == 1 and isinstance(st.targets[0], ast.Name):
            v = _int_attr(st.value, {**table, **ints})
            if v is not None:
                ints[st.targets[0].id] = v
    table = {**table, **ints}
    unit = [st for st, _g in walk_guarded(body) if isinstance(st, ast.Assign) and isinstance(st.targets[0], ast.Subscript)
            and src(st.targets[0].slice) == "i" and src(st.targets[0].value) in COEF
            and isinstance(st.value, ast.Constant) and st.value.value == 1]
    wraps = []
    for st, guards in walk_guarded(body):
        if isinstance(st, ast.Assign) and isinstance(st.targets[0], ast.Subscript) and isinstance(st.targets[0].slice, ast.Slice) and \
                isinstance(st.value, ast.Subscript) and isinstance(st.value.slice, ast.Slice) and \
                src(st.targets[0].value) == src(st.value.value) and src(st.value.value) in COEF:
            wraps.append((st, guards))
    ok, bad = False, None
    if not unit:
        bad = None
    elif not wraps:
        other = [st for st, _g in walk_guarded(body) if st not in unit and isinstance(st, (ast.Assign, ast.AugAssign)) and
                 any(isinstance(t, ast.Subscript) and src(t.value) in COEF
                     for t in (st.targets if isinstance(st, ast.Assign) else [st.target]))]
        calls = [c for st, _g in walk_guarded(body) for c in own_exprs(st) if isinstance(c, ast.Call) and S in names_in_expr(c) and
                 not (isinstance(st, ast.Assign) and src(st.targets[0]) == S)]
        if not other and not calls:
            bad = ("the unit coefficient vector of a periodic space is returned without its wrapped copy (nothing else is stored into the "
                   "coefficients): basis function i < degree is evaluated without its part at the end of the period")
    else:
        st, guards = wraps[0]
        PER = (f"{S}.basis.periodic", "self.periodic", "self._periodic", f"{S}._basis.periodic")
        per = [pol != _polarity(t)[1] for t, pol, _n in guards if src(_polarity(t)[0]) in PER]
        # any guard that is not literally the periodicity flag (a comparison of nbasis with ncells, a test of the index ...) may be
        # equivalent to it or restrict the wrap further: not interpreted, the verdict is then UNDECIDED
        vague = [t for t, pol, _n in guards if src(_polarity(t)[0]) not in PER]
        tl, th = st.targets[0].slice.lower, st.targets[0].slice.upper
        vl, vh = st.value.slice.lower, st.value.slice.upper
        def ev(e, dflt):
            v = dflt if e is None else _int_attr(e, table)
            return v + n + p if v is not None and v.is_negative else v      # a negative bound counts from the end (length n + p)
        a, b, c, d = ev(tl, Integer(0)), ev(th, n + p), ev(vl, Integer(0)), ev(vh, n + p)
        if None in (a, b, c, d):
            bad = None
        elif vague:
            bad = None
        elif per != [True]:
            bad = (f"`{src(st)}` is not applied exactly when the space is periodic (guards: {[src(t) for t, _p, _n in guards]}): on a clamped "
                   "space it overwrites the last p coefficients with the first p, so the spline returned is not basis function i")
        elif sp.expand(a - n) == 0 and sp.expand(b - n - p) == 0 and sp.expand(c) == 0 and sp.expand(d - p) == 0:
            ok = True
        else:
            bad = (f"`{src(st)}` copies entries [{c}, {d}) onto [{a}, {b}) (n = number of cells, p = degree): the wrapped copy of a periodic "
                   "basis function is the first p coefficients repeated after the n-th, so this spline is not basis function i")
    if bad is not None:
        # ASSUMPTIONS of VIOLATED: (1) the wrapped copy is a contract with the READERS of the coefficients - the kernels read the window
        # c[span-degree .. span] without folding the index (rule E4) and no spline class wraps the coefficients itself; (2) the length of
        # the coefficient array is ncells + degree (Spline1D's constructor).  Otherwise the producer side alone decides nothing.
        reader = wrap_done_by_reader(smod)
        if reader is not None:
            bad = None
        elif not readers_take_linear_window(chk, ["nu_eval_spline_1d_scalar", "nu_eval_spline_1d_vector", "cu_eval_spline_1d_scalar",
                                                   "cu_eval_spline_1d_vector"]):
            bad = None
    chk.pat("E5-periodic-wrap", wraps[0][0] if wraps else gi, "coeffs[n:n+p] = coeffs[0:p]", ok, "basis function i of a periodic space carries "
            "its wrapped copy (first p coefficients repeated after the n-th)", bad, file=U.SPLINES, func="BSplines.__getitem__")


KERNEL_COEFFS = {}       # kernel -> actuals its `coeffs` parameter receives at the hand-over sites of splines.py (filled by dispatch_and_wrap)


def no_coeff_mutation(chk):
    for rel in (U.NU, U.CU):
        mod = chk.mod(rel)
        for q, fn in mod.functions().items():
            if "eval_spline" not in q:
                continue
            muts = lints.shared_state_mutations(fn, lambda s: s == "coeffs" or s.startswith("coeffs["))
            verdict = not muts
            und = list(getattr(muts, "undecided", []) or [])
            if not muts and und:
                # possible but unestablished writes (the engine could not tell a view from a copy, or whether the alias is still live)
                chk.ob("G2-no-shared-mutation", und[0][0] if und[0][0] is not None else fn, f"{q} vs coeffs", None,
                       "; ".join(f"{u[1]} ({u[2]})" for u in und[:3]) + " - possible write through the coefficient array, not established",
                       file=rel, func=q)
                continue
            if muts:
                # ASSUMPTION of VIOLATED: the array the kernel writes through IS the spline's own coefficient array, i.e. an entry point
                # hands `self._coeffs` itself (not a copy) to this kernel's `coeffs`.  Read off the hand-over sites found by the dispatch
                # analysis; when none of them is known for this kernel the verdict is UNDECIDED.
                acts = KERNEL_COEFFS.get(q, set())
                if not acts or not all(a_ in ("self._coeffs", "self.coeffs") for a_ in acts):
                    verdict = None
            chk.ob("G2-no-shared-mutation", fn, f"{q} vs coeffs", verdict,
                   "the coefficient array is only read (the working block is a copy)" if not muts else
                   "; ".join(d for _, d in muts) + " - the evaluation overwrites the spline's own coefficients: the first call is "
                   "right, later calls on the same spline are wrong", file=rel, func=q)


EVALUATORS = ["eval_spline_1d_scalar", "eval_spline_1d_vector", "eval_spline_2d_scalar", "eval_spline_2d_cross", "eval_spline_2d_vector"]


def run(chk):
    chk.explanation = (
        "Fast-path/general-path dispatch agreement (matched cu_/nu_ pairs, identical arguments and signatures, 6 sites + "
        "collocation matrix); for each of the 10 evaluators and every derivative-flag combination (28 cases) the returned value "
        "is extracted by symbolic forward substitution and equals the contraction of the coefficient window [span-degree, span] "
        "with the value/derivative basis routine applied to the knots, degree, point and span (cell size) of the same dimension; "
        "the uniform cubic basis equals the cardinal cubic B-spline, sums to 1, has non-negative Bernstein coefficients, its "
        "derivative routine is d/dx of it and sums to 0; the uniform span search is read as a piecewise function (one leaf per truth "
        "assignment of its guards): every leaf returns cell+K with one K, the end point is evaluated in the last cell, and the cell "
        "index is kept below ncells by a test on the index itself; the uniform evaluators (and the collocation matrix, C08/C09) are "
        "compared with THAT K (index convention shared by search and consumers, whatever it is); in the evaluators over arrays of "
        "points no scalar (span, offset) is carried from one point to the next; entry points that take their kernels from a "
        "two-entry table read like if/else; periodic wrap; evaluators do not write into the coefficient array. Cox-de Boor "
        "recursion and binary span search are not decided.")
    chk.assumptions += ["nu_basis_funs / nu_basis_funs_1st_der / nu_find_span compute the non-vanishing B-splines, their derivatives and the span (declined part)"]
    chk.in_file(U.NU)
    for fam, rel in (("nu", U.NU), ("cu", U.CU)):
        for e in EVALUATORS:
            check_evaluator(chk, rel, f"{fam}_{e}")
            pointwise(chk, rel, f"{fam}_{e}")
    cardinal_cubic(chk)
    dispatch_and_wrap(chk)
    no_coeff_mutation(chk)
    chk.floor("E4-evaluator", 28)
    chk.floor("E4-pointwise", 2)
    chk.floor("F8-", 14)
    chk.floor("E1-dispatch", 5)
    chk.floor("E2-", 6)
