"""Engine I: one-shot iterators (DESIGN 2.12).

`enumerate`, `zip`, `map`, `filter`, `reversed`, generator expressions and generator functions hand out an object that can be
walked ONCE.  The grid accessors `Grid.getCoords` / `Grid.getEta` return such objects, and every loop of the library that walks
a block asks for a fresh one.  Two rules, decided from the syntax tree only:

I1-reuse   a local name bound to a one-shot iterator is consumed at most once per binding: a consuming use (iterable of a `for`
           or comprehension, argument of list/tuple/sum/..., `*n`, `in n`) inside a loop that does not contain the binding meets an
           exhausted iterator from the loop's second pass on (lines of the block silently skipped); so does a second consuming use
           on the same path.
I2-memo    a function that returns a one-shot iterator is not memoised (functools cache decorators, a repository decorator whose
           wrapper stores the result of the wrapped call in a container/attribute, a store of the iterator in an attribute or
           container that a later call reads back).

VIOLATED-soundness: the producer is a builtin that is not shadowed in the module, or a repository function every definition of
which (by name: the receiver's class is not resolved) returns a one-shot expression on every return; names bound more than once
in the function, iterators made by `iter()` and consumption by `next()` (deliberate stepwise use) are left out; a loop that
contains `break`/`return` (it may run once) gives UNDECIDED.
"""
from __future__ import annotations

import ast

from .core import src, qual

PRODUCERS = {"enumerate", "zip", "map", "filter", "reversed"}
CONSUMERS = {"list", "tuple", "set", "frozenset", "sorted", "sum", "max", "min", "dict", "any", "all", "enumerate", "zip",
             "map", "filter", "reversed"}
HARMLESS_DECORATORS = {"property", "staticmethod", "classmethod", "abstractmethod", "wraps", "overload", "final"}
CACHE_DECORATORS = {"lru_cache", "cache", "cached_property"}


def _set_parents(tree):
    for n in ast.walk(tree):
        for c in ast.iter_child_nodes(n):
            c._os_parent = n


def _shadowed(tree) -> set:
    out = set()
    for n in ast.walk(tree):
        if isinstance(n, (ast.FunctionDef, ast.ClassDef)) and n.name in PRODUCERS:
            out.add(n.name)
        elif isinstance(n, ast.Name) and isinstance(n.ctx, ast.Store) and n.id in PRODUCERS:
            out.add(n.id)
        elif isinstance(n, ast.alias) and (n.asname or n.name) in PRODUCERS:
            out.add(n.asname or n.name)
        elif isinstance(n, ast.arg) and n.arg in PRODUCERS:
            out.add(n.arg)
    return out


def _own_nodes(fn):
    """nodes of fn's body without nested function/class bodies"""
    stack = list(fn.body)
    while stack:
        n = stack.pop()
        yield n
        if isinstance(n, (ast.FunctionDef, ast.AsyncFunctionDef, ast.ClassDef, ast.Lambda)):
            continue
        stack.extend(ast.iter_child_nodes(n))


def _callee_name(call):
    f = call.func
    if isinstance(f, ast.Name):
        return f.id
    if isinstance(f, ast.Attribute):
        return f.attr
    return None


class Summaries:
    """which repository functions return a one-shot iterator on every return (fixpoint over wrappers)"""

    def __init__(self, chk, units):
        self.defs: dict[str, list] = {}          # simple name -> [(unit, fn)]
        self.shadow: dict[str, set] = {}
        self.trees = {}
        for u in units:
            if not chk.repo.exists(u):
                continue
            # the RAW source, not the alpha-normalised tree of core.Module: writing a new temporary back at its use would hide the reuse
            try:
                tree = ast.parse(chk.repo.text(u))
            except SyntaxError as e:
                from .core import AnalysisError
                raise AnalysisError(f"unit does not parse: {u}: {e}")
            _set_parents(tree)
            self.trees[u] = tree
            self.shadow[u] = _shadowed(tree)
            for n in ast.walk(tree):
                if isinstance(n, ast.FunctionDef):
                    self.defs.setdefault(n.name, []).append((u, n))
        self.oneshot: dict[int, bool] = {}
        changed = True
        rounds = 0
        while changed and rounds < 5:
            changed = False
            rounds += 1
            for name, lst in self.defs.items():
                for u, fn in lst:
                    v = self._returns_oneshot(u, fn)
                    if self.oneshot.get(id(fn)) != v:
                        self.oneshot[id(fn)] = v
                        changed = True

    def _returns_oneshot(self, u, fn) -> bool:
        own = list(_own_nodes(fn))
        if any(_decorator_name(d) in ("contextmanager", "asynccontextmanager", "fixture") for d in fn.decorator_list):
            return False        # the decorator turns the generator function into a factory of context managers / fixtures
        if any(isinstance(n, (ast.Yield, ast.YieldFrom)) for n in own):
            return True
        rets = [n for n in own if isinstance(n, ast.Return)]
        if not rets:
            return False
        return all(r.value is not None and self.is_oneshot_expr(u, r.value) for r in rets)

    def is_oneshot_expr(self, u, e) -> bool:
        if isinstance(e, ast.GeneratorExp):
            return True
        if isinstance(e, ast.Call):
            nm = _callee_name(e)
            if isinstance(e.func, ast.Name) and nm in PRODUCERS and nm not in self.shadow.get(u, ()):
                return True
            if nm in self.defs and nm not in PRODUCERS:
                lst = self.defs[nm]
                if lst and all(self.oneshot.get(id(fn)) for _, fn in lst):
                    return True
        return False


def _loops_around(node, fn):
    """loops whose BODY (re-executed part) contains node, innermost first; stops at fn"""
    out = []
    child, p = node, getattr(node, "_os_parent", None)
    while p is not None and p is not fn:
        if isinstance(p, (ast.For, ast.AsyncFor)):
            if child is not p.iter:
                out.append(p)
        elif isinstance(p, ast.While):
            out.append(p)
        elif isinstance(p, (ast.ListComp, ast.SetComp, ast.GeneratorExp, ast.DictComp)):
            if not (isinstance(child, ast.comprehension) and child is p.generators[0] and _in(node, child.iter)):
                out.append(p)
        child, p = p, getattr(p, "_os_parent", None)
    return out


def _in(node, root):
    return any(n is node for n in ast.walk(root))


def _consuming(name_node):
    """how the Load of a name consumes the iterator, or None"""
    p = getattr(name_node, "_os_parent", None)
    if isinstance(p, (ast.For, ast.AsyncFor)) and p.iter is name_node:
        return "iterable of `for`"
    if isinstance(p, ast.comprehension) and p.iter is name_node:
        return "iterable of a comprehension"
    if isinstance(p, ast.Starred):
        return "unpacked with *"
    if isinstance(p, ast.Call) and name_node in p.args and isinstance(p.func, ast.Name) and p.func.id in CONSUMERS:
        return f"argument of {p.func.id}()"
    if isinstance(p, ast.Compare) and name_node in p.comparators and any(isinstance(o, (ast.In, ast.NotIn)) for o in p.ops):
        return "right operand of `in`"
    return None


def _partial(name_node):
    """the consumer may stop early on purpose (a `for` over the iterator that breaks/returns): what is left is meant for a later consumer"""
    p = getattr(name_node, "_os_parent", None)
    if isinstance(p, (ast.For, ast.AsyncFor)) and p.iter is name_node:
        for st in p.body + p.orelse:
            for x in ast.walk(st):
                if isinstance(x, (ast.Break, ast.Return)):
                    return True
    return False


def _exclusive(a, b, fn):
    """a and b lie in different arms of one if/try/match"""
    def chain(n):
        out = []
        child, p = n, getattr(n, "_os_parent", None)
        while p is not None:
            out.append((p, child))
            if p is fn:
                break
            child, p = p, getattr(p, "_os_parent", None)
        return out
    ca = {id(p): c for p, c in chain(a)}
    for p, c in chain(b):
        if id(p) in ca:
            other = ca[id(p)]
            if isinstance(p, ast.If):
                ina = "body" if any(other is s for s in p.body) else "orelse" if any(other is s for s in p.orelse) else "test"
                inb = "body" if any(c is s for s in p.body) else "orelse" if any(c is s for s in p.orelse) else "test"
                return {ina, inb} == {"body", "orelse"}
            if isinstance(p, ast.IfExp):
                return other is not c and p.test not in (other, c)
            if isinstance(p, ast.Try):
                return other is not c and (isinstance(other, ast.ExceptHandler) or isinstance(c, ast.ExceptHandler))
            if hasattr(ast, "Match") and isinstance(p, ast.Match):
                return other is not c
            return False
    return False


def check_reuse(chk, summ: Summaries, unit, only_classes=None, rule="I1-reuse"):
    """I1 over the functions of `unit` (methods of `only_classes` when given). Returns the number of obligations."""
    tree = summ.trees.get(unit)
    n_ob = 0
    if tree is None:
        return 0
    for fn in ast.walk(tree):
        if not isinstance(fn, ast.FunctionDef):
            continue
        par = getattr(fn, "_os_parent", None)
        cls = par.name if isinstance(par, ast.ClassDef) else None
        if only_classes is not None and cls not in only_classes:
            continue
        fq = f"{cls}.{fn.name}" if cls else fn.name
        own = list(_own_nodes(fn))
        binds: dict[str, list] = {}
        for n in own:
            if isinstance(n, ast.Name) and isinstance(n.ctx, (ast.Store, ast.Del)):
                binds.setdefault(n.id, []).append(n)
        for st in own:
            if not (isinstance(st, ast.Assign) and len(st.targets) == 1 and isinstance(st.targets[0], ast.Name)):
                continue
            nm = st.targets[0].id
            if not summ.is_oneshot_expr(unit, st.value):
                continue
            construct = f"{nm} = {src(st.value)[:70]}"
            if len(binds.get(nm, [])) != 1 or nm in {a.arg for a in ast.walk(fn.args) if isinstance(a, ast.arg)}:
                continue        # bound more than once: reaching definitions are not followed (left out, see module docstring)
            if any(isinstance(n, (ast.Global, ast.Nonlocal)) and nm in n.names for n in own):
                continue
            bl = _loops_around(st, fn)
            uses = [n for n in ast.walk(fn) if isinstance(n, ast.Name) and n.id == nm and isinstance(n.ctx, ast.Load)
                    and (n.lineno, n.col_offset) > (st.lineno, st.col_offset)]
            cons = [(n, _consuming(n)) for n in uses]
            cons = [(n, how) for n, how in cons if how]
            verdict, msg, where = True, "", st
            for n, how in cons:
                extra = [L for L in _loops_around(n, fn) if not any(L is b for b in bl)]
                if extra:
                    L = extra[-1]
                    may_stop = any(isinstance(x, (ast.Break, ast.Return, ast.Raise)) for x in ast.walk(L)) or _partial(n)
                    what = (f"`{nm}` is a one-shot iterator made once at line {st.lineno} and consumed ({how}) at line {n.lineno} inside the "
                            f"loop of line {L.lineno}, which does not make it again: from the loop's second pass on it is exhausted and "
                            f"the walk over it is empty")
                    if may_stop:
                        if verdict is True:
                            verdict, msg, where = None, what + " - the loop contains break/return/raise and may run once: cannot decide", n
                    else:
                        verdict, msg, where = False, what, n
                        break
            if verdict is True and len(cons) >= 2:
                for a in range(len(cons)):
                    for b in range(a + 1, len(cons)):
                        na, nb = cons[a][0], cons[b][0]
                        if _exclusive(na, nb, fn):
                            continue
                        if _partial(na):
                            continue    # the first walk stops early on purpose and the second continues where it stopped
                        # zip(it, it)-style deliberate pairing inside ONE call is a known idiom
                        if getattr(na, "_os_parent", None) is getattr(nb, "_os_parent", None):
                            continue
                        verdict, where = False, nb
                        msg = (f"`{nm}` is a one-shot iterator made once at line {st.lineno} and consumed twice on one path (lines {na.lineno} "
                               f"and {nb.lineno}): the second walk is empty")
                        break
                    if verdict is False:
                        break
            n_ob += 1
            chk.ob(rule, where, construct, verdict,
                   msg or f"one-shot iterator consumed at most once per creation ({len(cons)} consuming use(s), none in a loop that does not re-create it)",
                   file=unit, func=fq)
    return n_ob


def _decorator_name(d):
    if isinstance(d, ast.Call):
        d = d.func
    if isinstance(d, ast.Attribute):
        return d.attr
    if isinstance(d, ast.Name):
        return d.id
    return None


def _memoising_decorator(dec_fn):
    """True when the wrapper defined in dec_fn stores the wrapped call's result in a container/attribute; False when every inner
    function only passes the call through; None when the shape is not understood"""
    params = [a.arg for a in dec_fn.args.args]
    if not params:
        return None
    f = params[0]
    inner = [n for n in ast.walk(dec_fn) if isinstance(n, (ast.FunctionDef, ast.Lambda)) and n is not dec_fn]
    if not inner:
        return None
    calls = [c for w in inner for c in ast.walk(w) if isinstance(c, ast.Call) and isinstance(c.func, ast.Name) and c.func.id == f]
    if not calls:
        return None
    for c in calls:
        p = getattr(c, "_os_parent", None)
        # value carried through names
        carried = set()
        if isinstance(p, (ast.Assign, ast.AnnAssign, ast.NamedExpr)):
            tgts = p.targets if isinstance(p, ast.Assign) else [p.target]
            if any(isinstance(t, (ast.Subscript, ast.Attribute)) for t in tgts):
                return True
            carried = {t.id for t in tgts if isinstance(t, ast.Name)}
        elif isinstance(p, ast.Call) and _callee_name(p) in ("setdefault", "__setitem__", "setattr", "append"):
            return True
        elif isinstance(p, ast.Return) or isinstance(p, ast.Expr):
            continue
        else:
            return None
        for w in inner:
            for st in ast.walk(w):
                if isinstance(st, ast.Assign) and isinstance(st.value, ast.Name) and st.value.id in carried and \
                        any(isinstance(t, (ast.Subscript, ast.Attribute)) for t in st.targets):
                    return True
                if isinstance(st, ast.Call) and _callee_name(st) in ("setdefault", "__setitem__", "setattr") and \
                        any(isinstance(a, ast.Name) and a.id in carried for a in st.args):
                    return True
    return False


def check_memo(chk, summ: Summaries, unit, only_classes=None, rule="I2-memo"):
    tree = summ.trees.get(unit)
    n_ob = 0
    if tree is None:
        return 0
    local_defs = {n.name: n for n in ast.walk(tree) if isinstance(n, ast.FunctionDef)}
    for fn in ast.walk(tree):
        if not isinstance(fn, ast.FunctionDef):
            continue
        par = getattr(fn, "_os_parent", None)
        cls = par.name if isinstance(par, ast.ClassDef) else None
        if only_classes is not None and cls not in only_classes:
            continue
        fq = f"{cls}.{fn.name}" if cls else fn.name
        own = list(_own_nodes(fn))
        # (a) stores of a one-shot iterator in an attribute / container
        for st in own:
            val = tgts = None
            if isinstance(st, ast.Assign):
                val, tgts = st.value, st.targets
            elif isinstance(st, ast.AnnAssign) and st.value is not None:
                val, tgts = st.value, [st.target]
            if val is None or not summ.is_oneshot_expr(unit, val):
                continue
            keep = [t for t in tgts if isinstance(t, (ast.Subscript, ast.Attribute))]
            if not keep:
                continue
            tsrc = src(keep[0])
            read_back = any(isinstance(r, ast.Return) and r.value is not None and tsrc in src(r.value) for r in own)
            elsewhere = False
            if isinstance(keep[0], ast.Attribute) and isinstance(par, ast.ClassDef):
                for other in par.body:
                    if isinstance(other, ast.FunctionDef) and other is not fn:
                        for n in ast.walk(other):
                            if isinstance(n, ast.Attribute) and isinstance(n.ctx, ast.Load) and src(n) == tsrc and _consuming_attr(n):
                                elsewhere = True
            n_ob += 1
            if read_back or elsewhere:
                chk.ob(rule, st, f"{tsrc} = {src(val)[:60]}", False,
                       f"a one-shot iterator is kept in `{tsrc}` and handed out/consumed by later calls: the first consumer exhausts it, every later "
                       f"one walks nothing", file=unit, func=fq)
            else:
                chk.ob(rule, st, f"{tsrc} = {src(val)[:60]}", None,
                       f"a one-shot iterator is stored in `{tsrc}`; its readers are not followed: cannot decide whether it is walked once only",
                       file=unit, func=fq)
        # (b) decorators of functions that return a one-shot iterator
        if not summ.oneshot.get(id(fn)):
            continue
        verdict, msg = True, "returns a fresh one-shot iterator at every call (no memoising decorator)"
        for d in fn.decorator_list:
            dn = _decorator_name(d)
            if dn in HARMLESS_DECORATORS:
                continue
            if dn in CACHE_DECORATORS:
                verdict, msg = False, (f"`{fq}` returns a one-shot iterator and is memoised by @{dn}: the second caller with the same arguments "
                                       f"receives the iterator the first one exhausted")
                break
            if dn in local_defs:
                m = _memoising_decorator(local_defs[dn])
                if m is True:
                    verdict, msg = False, (f"`{fq}` returns a one-shot iterator and is wrapped by @{dn}, whose wrapper stores the result of the wrapped "
                                           f"call and returns the stored object afterwards: the second call for the same key receives the exhausted iterator")
                    break
                if m is False:
                    continue
            if verdict is True:
                verdict, msg = None, f"decorator @{dn} of `{fq}` (returns a one-shot iterator) is not followed: cannot decide whether results are reused"
        n_ob += 1
        chk.ob(rule, fn, f"def {fq}(...) -> one-shot iterator", verdict, msg, file=unit, func=fq)
    return n_ob


def _consuming_attr(n):
    p = getattr(n, "_os_parent", None)
    if isinstance(p, (ast.For, ast.AsyncFor)) and p.iter is n:
        return True
    if isinstance(p, ast.comprehension) and p.iter is n:
        return True
    if isinstance(p, ast.Call) and n in p.args and isinstance(p.func, ast.Name) and p.func.id in CONSUMERS:
        return True
    return False


def run_oneshot(chk, unit, only_classes=None, summary_units=None, memo=True):
    """both rules over one unit; summaries are computed over `summary_units` (default: every parsed unit of the run)"""
    from .units import ALL_UNITS, VARIANTS
    variants = {v for vs in VARIANTS.values() for v in vs}
    units = summary_units or [u for u in ALL_UNITS if u not in variants]
    if unit not in units:
        units = list(units) + [unit]
    summ = Summaries(chk, units)
    chk.units.add(unit)
    n1 = check_reuse(chk, summ, unit, only_classes)
    n2 = check_memo(chk, summ, unit, only_classes) if memo else 0
    producers = sorted({f"{u}:{fn.name}" for lst in summ.defs.values() for u, fn in lst if summ.oneshot.get(id(fn))})
    chk.note(f"engine I on {unit}{' classes ' + str(sorted(only_classes)) if only_classes else ''}: {n1} I1 obligation(s), {n2} I2 obligation(s); "
             f"repository functions returning one-shot iterators: {producers}")
    return summ, n1, n2


# a rule whose instance count on today's tree is zero (I1: no function keeps a one-shot iterator in a local) is exercised on every run
_PROBE = '''
def getIt(n):
    return enumerate(range(n))
def memo(f):
    def w(n):
        try:
            return memo.c[n]
        except KeyError:
            r = memo.c[n] = f(n)
            return r
    return w
def through(f):
    def w(n):
        return f(n)
    return w
@memo
def cachedIt(n):
    return zip(range(n), range(n))
@through
def freshIt(n):
    return zip(range(n), range(n))
def bad(n):
    it = getIt(n)
    for a in range(n):
        for i, b in it:
            pass
def twice(n):
    it = getIt(n)
    s = sum(it)
    return s + sum(it)
def good(n):
    for a in range(n):
        it = getIt(n)
        for i, b in it:
            pass
def good2(n):
    it = getIt(n)
    for i, b in it:
        pass
'''


def self_probe():
    """the engine on a fixed snippet: must report bad/twice/cachedIt and accept good/good2/freshIt; AnalysisError otherwise"""
    from .core import AnalysisError

    class _Repo:
        def exists(self, u):
            return True

        def text(self, u):
            return _PROBE

    class _Chk:
        repo = _Repo()

        def __init__(self):
            self.got = {}
            self.units = set()

        def ob(self, rule, node, construct, ok, msg="", file=None, func=None, **kw):
            self.got[(rule, func)] = ok

        def note(self, s):
            pass
    c = _Chk()
    s = Summaries(c, ["<probe>"])
    check_reuse(c, s, "<probe>")
    check_memo(c, s, "<probe>")
    want = {("I1-reuse", "bad"): False, ("I1-reuse", "twice"): False, ("I1-reuse", "good"): True, ("I1-reuse", "good2"): True,
            ("I2-memo", "cachedIt"): False, ("I2-memo", "freshIt"): True, ("I2-memo", "getIt"): True}
    if c.got != want:
        raise AnalysisError(f"engine I self-probe failed: got {c.got}, expected {want}")
    return len(want)


def attach(chk, plan):
    """plan: list of (unit, classes-or-None).  Self-probe, then both rules over each unit; I2 floor: the grid accessors."""
    n = self_probe()
    tot1 = tot2 = 0
    summ = None
    for unit, classes in plan:
        summ, n1, n2 = run_oneshot(chk, unit, classes)
        tot1 += n1
        tot2 += n2
    prods = {fn.name for lst in summ.defs.values() for u, fn in lst if summ.oneshot.get(id(fn))} if summ else set()
    chk.ob("I0-probe", "pgverif/oneshot.py", "engine I self-probe", True,
           f"{n} fixed instances (3 that must be reported, 4 that must be accepted) decided as expected; accessors returning one-shot iterators "
           f"today: {sorted(prods)}", file="pgverif/oneshot.py", func="self_probe", nontrivial=False)
    return tot1, tot2
