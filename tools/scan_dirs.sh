#!/bin/bash
# scan_dirs.sh <dir>...: run each variant's OWN check on it (scratch copy) and print "<dir> exit=N"
for d in "$@"; do
  pid=$(basename $d | cut -c1-3)
  rc=$(/verif/tools/try_patch.sh $d/patch.diff $pid 2>&1 | grep -E "exit=|PATCH DOES" | sed 's/.*exit=//')
  echo "$(basename $d) exit=$rc"
done
