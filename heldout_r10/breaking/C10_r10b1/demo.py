import sys, os; sys.path.insert(0, os.getcwd())
import types
import numpy as np

# ---- fake mpi4py (no MPI library in the sandbox) ----
def _install_fake_mpi():
    if 'mpi4py' in sys.modules:
        return
    m = types.ModuleType('mpi4py')
    MPI = types.ModuleType('mpi4py.MPI')

    class _Comm:
        def Get_rank(self): return 0
        def Get_size(self): return 1
        def __getattr__(self, name):
            def f(*a, **k): return None
            return f
    MPI.Comm = _Comm
    MPI.Intracomm = _Comm
    MPI.Cartcomm = _Comm
    MPI.COMM_WORLD = _Comm()
    MPI.COMM_NULL = None
    for nm in ('DOUBLE', 'INT', 'SUM', 'MAX', 'MIN', 'IN_PLACE', 'COMPLEX', 'DOUBLE_COMPLEX', 'BOOL', 'LOR', 'LAND'):
        setattr(MPI, nm, nm)
    MPI.Wtime = lambda: 0.0
    m.MPI = MPI
    sys.modules['mpi4py'] = m
    sys.modules['mpi4py.MPI'] = MPI

_install_fake_mpi()
import pygyro
assert os.path.realpath(pygyro.__file__).startswith(os.path.realpath(os.getcwd()) + os.sep), \
    "pygyro imported from %s, not from cwd" % pygyro.__file__
from pygyro.splines import splines as spl
from pygyro.advection.advection import FluxSurfaceAdvection
from scipy.interpolate import make_interp_spline


class FakeLayout:
    """Minimal stand-in for a 'flux_surface' layout (dims order r, v, theta, z) on one process."""
    def __init__(self, nr, nv, nq, nz):
        self.dims_order = (0, 3, 1, 2)
        self.inv_dims_order = (0, 2, 3, 1)
        self.shape = (nr, nv, nq, nz)
        self.starts = (0, 0, 0, 0)
        self.ends = (nr, nv, nq, nz)


class Consts:
    def __init__(self, R0, iota0, shear=0.0):
        self.R0 = R0
        self._i0 = iota0
        self._sh = shear
    def iota(self, r=None):
        if r is None:
            return self._i0
        return self._i0 + self._sh*np.asarray(r) if self._sh else np.full_like(np.asarray(r, dtype=float), self._i0)


def make_setup(nq, nz, rs, vs, R0, iota0, shear=0.0, degree=3, uniform=True):
    Lz = 2*np.pi*R0
    bq = np.linspace(0, 2*np.pi, nq+1)
    bz = np.linspace(0, Lz, nz+1)
    bs = [spl.BSplines(spl.make_knots(bq, degree, True), degree, True, uniform),
          spl.BSplines(spl.make_knots(bz, 3, True), 3, True, True)]
    eta = [np.asarray(rs, dtype=float), bs[0].greville.copy(), bs[1].greville.copy(), np.asarray(vs, dtype=float)]
    assert np.allclose(eta[1], bq[:-1]) and np.allclose(eta[2], bz[:-1])
    lay = FakeLayout(len(rs), len(vs), nq, nz)
    return eta, bs, lay, Consts(R0, iota0, shear)


def lagrange_weights(x, nodes):
    w = np.ones(len(nodes))
    for k in range(len(nodes)):
        for m in range(len(nodes)):
            if m != k:
                w[k] *= (x-nodes[m])/(nodes[k]-nodes[m])
    return w


def reference_step(f, eta, consts, dt, vIdx, rIdx, degree=3, zDegree=5):
    """Independent implementation of the stated formula (scipy periodic splines,
    product-form Lagrange weights)."""
    q = eta[1]; z = eta[2]
    nq, nz = q.size, z.size
    dz = z[1]-z[0]
    r = eta[0][rIdx]; v = eta[3][vIdx]
    iota = float(np.atleast_1d(consts.iota(np.array([r])))[0])
    bz = 1/np.sqrt(1+(r*iota/consts.R0)**2)
    dist = -v*bz*dt
    s0 = int(np.floor(dist/dz))
    npt = zDegree+1
    shifts = s0 + np.arange(-(npt//2)+1, npt//2+1)
    w = lagrange_weights(dist, dz*shifts)
    qq = np.concatenate([q, [2*np.pi]])
    sp = [make_interp_spline(qq, np.concatenate([f[:, i], f[:1, i]]), k=degree, bc_type='periodic')
          for i in range(nz)]
    out = np.zeros_like(f)
    for i in range(nz):
        for k, s in enumerate(shifts):
            th = np.mod(q + iota*dz*s/consts.R0, 2*np.pi)
            out[:, i] += w[k]*sp[(i+s) % nz](th)
    return out


def lib_step(adv, f, vIdx, rIdx):
    g = np.array(f, dtype=float, order='C', copy=True)
    adv.step(g, vIdx, rIdx)
    return g

# ---------------------------------------------------------------------------
# Property C10: one flux-surface advection step == degree-5 Lagrange
# interpolation along the field line of the theta-spline at the foot.
# ---------------------------------------------------------------------------
TOL = 1e-10
fails = []
rng = np.random.default_rng(1234)


def check(name, err, tol=TOL):
    ok = bool(err <= tol)
    print("%-72s err=%.3e %s" % (name, err, "ok" if ok else "VIOLATED"))
    if not ok:
        fails.append(name)


R0 = 3.0
# (label, nq, nz, iota0, shear, spline degree, uniform, dt, rs, vs)
Lz8 = 2*np.pi*R0
configs = [
    ("cubic-uniform, iota=0.8, dt>0", 12, 10, 0.8, 0.0, 3, True, 0.7, [0.1, 0.7, 1.4], [-3.0, -0.4, 0.0, 1.1, 7.5]),
    ("cubic-uniform, no twist, dt<0", 9, 16, 0.0, 0.0, 3, True, -1.3, [0.3, 1.0], [-2.0, 0.0, 0.5, 4.0]),
    ("general cubic, sheared iota, many cells", 10, 8, 0.5, 0.3, 3, False, 5.0, [0.1, 0.7, 1.4], [-3.0, -0.4, 1.1, 7.5]),
    ("general quintic, iota=0.8, dt<0", 11, 9, 0.8, 0.0, 5, False, -0.2, [0.2, 1.2], [-6.0, 0.3, 2.0]),
    ("cubic-uniform, reversed helicity iota=-0.8", 10, 9, -0.8, 0.0, 3, True, 0.9, [0.2, 1.2], [-2.5, 0.6, 3.0]),
    ("general cubic, reversed helicity iota=-1.3", 9, 8, -1.3, 0.0, 3, False, -0.6, [0.5], [-2.5, 1.7]),
    ("cubic-uniform, iota=0.8, several toroidal turns", 10, 8, 0.8, 0.0, 3, True, 11.0, [0.2, 1.2], [-4.1, -1.9, 2.3, 5.2]),
    ("general cubic, iota=0.37, several toroidal turns, dt<0", 8, 9, 0.37, 0.0, 3, False, -9.0, [0.9], [-3.3, 2.9]),
]

digest = []
for (label, nq, nz, iota0, shear, deg, uni, dt, rs, vs) in configs:
    eta, bs, lay, c = make_setup(nq, nz, rs, vs, R0, iota0, shear, deg, uni)
    adv = FluxSurfaceAdvection(eta, bs, lay, dt, c)
    worst = 0.0
    worst_lin = 0.0
    worst_const = 0.0
    worst_shift = 0.0
    for ri in range(len(rs)):
        for vi in range(len(vs)):
            f = rng.standard_normal((nq, nz))
            g = rng.standard_normal((nq, nz))
            a = lib_step(adv, f, vi, ri)
            b = reference_step(f, eta, c, dt, vi, ri, deg)
            worst = max(worst, np.abs(a-b).max())
            digest.append(a.sum()); digest.append(np.abs(a).max())
            # constants
            k = lib_step(adv, np.full((nq, nz), 2.5), vi, ri)
            worst_const = max(worst_const, np.abs(k-2.5).max())
            # linearity
            ag = lib_step(adv, g, vi, ri)
            comb = lib_step(adv, 1.7*f-0.3*g, vi, ri)
            worst_lin = max(worst_lin, np.abs(comb-(1.7*a-0.3*ag)).max())
            # commutes with shifts in z
            sh = lib_step(adv, np.roll(f, 3, axis=1), vi, ri)
            worst_shift = max(worst_shift, np.abs(sh-np.roll(a, 3, axis=1)).max())
    check(label + " | vs reference", worst)
    check(label + " | constants", worst_const)
    check(label + " | linearity", worst_lin)
    check(label + " | z-shift commutation", worst_shift)

# whole number of cells, no twist: exact circular shift (many cells, both signs)
nq, nz = 8, 12
rs = [0.4]
eta, bs, lay, c = make_setup(nq, nz, rs, [1.0], R0, 0.0)
dz = eta[2][1]-eta[2][0]
for ncell in (-29, -3, 0, 1, 5, 40):
    vs = [1.0]
    dt = -ncell*dz   # bz = 1 (iota = 0): displacement -v*dt = ncell*dz
    adv = FluxSurfaceAdvection(eta, bs, lay, dt, c)
    f = rng.standard_normal((nq, nz))
    a = lib_step(adv, f, 0, 0)
    # f_new(z_i) = f(z_i + ncell*dz)
    check("whole-cell displacement %+d cells, no twist: circular shift" % ncell,
          np.abs(a-np.roll(f, -ncell, axis=1)).max(), 1e-12)
    check("whole-cell displacement %+d cells | vs reference" % ncell,
          np.abs(a-reference_step(f, eta, c, dt, 0, 0)).max())

# displacement a hair away from a whole number of cells, far from the origin
for ncell, eps in ((37, 3e-4), (-52, -7e-5), (6, 1e-7)):
    dt = -(ncell+eps)*dz
    adv = FluxSurfaceAdvection(eta, bs, lay, dt, c)
    f = rng.standard_normal((nq, nz))
    a = lib_step(adv, f, 0, 0)
    check("near-node displacement (%d%+.0e) cells | vs reference" % (ncell, eps),
          np.abs(a-reference_step(f, eta, c, dt, 0, 0)).max())
    k = lib_step(adv, np.ones((nq, nz)), 0, 0)
    check("near-node displacement (%d%+.0e) cells | constants" % (ncell, eps), np.abs(k-1).max())

print("digest: %.12e" % float(np.sum(np.array(digest)*np.cos(np.arange(len(digest))))))
if fails:
    print("PROPERTY C10 VIOLATED (%d checks)" % len(fails))
    sys.exit(1)
print("PROPERTY C10 HOLDS")
sys.exit(0)
